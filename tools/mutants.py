#!/usr/bin/env python3
"""Seeded-defect self-test (DESIGN 3.9): applies one-line mutants of bisturi to a scratch copy of /repo,
confirms the pinned 40 tests still pass there, runs the owning property's quick check against the copy
(VERIF_REPO) and expects exit 1.  Not a check; does not feed verdicts.

usage: tools/mutants.py [--only substr] [--prop Cxx] [--tier quick] [--skip-tests]
"""
import argparse, json, os, shutil, subprocess, sys, tempfile, time

HERE = os.path.dirname(os.path.dirname(os.path.abspath(__file__)))


def main():
    ap = argparse.ArgumentParser()
    ap.add_argument("--only")
    ap.add_argument("--prop")
    ap.add_argument("--tier", default="quick")
    ap.add_argument("--skip-tests", action="store_true")
    ap.add_argument("--filter-ob", default=None, help="passed as --only to vcheck")
    a = ap.parse_args()
    muts = json.load(open(os.path.join(HERE, "tools", "mutants.json")))
    rows = []
    for m in muts:
        if a.only and a.only not in m["id"]:
            continue
        if a.prop and a.prop not in m["props"]:
            continue
        tmp = tempfile.mkdtemp(prefix="vm_")
        try:
            dst = os.path.join(tmp, "repo")
            shutil.copytree("/repo", dst, ignore=shutil.ignore_patterns(".git", "__pycache__", "__pkts__", "*.egg-info"))
            path = os.path.join(dst, m["file"])
            if "from_rev" in m:
                old = subprocess.run(["git", "-C", "/repo", "show", "%s:%s" % (m["from_rev"], m["file"])],
                                     capture_output=True, text=True, check=True).stdout
                open(path, "w").write(old)
                m = dict(m, old="", new="")
            s = open(path).read()
            if m["old"] and s.count(m["old"]) != 1:
                rows.append((m["id"], "STALE (old text occurs %d times)" % s.count(m["old"])))
                continue
            if m["old"]:
                open(path, "w").write(s.replace(m["old"], m["new"]))
            tests = "skipped"
            if not a.skip_tests:
                p = subprocess.run(["/venv/bin/python", "-m", "pytest", "-q", "-p", "no:cacheprovider", "-x", "tests"],
                                   cwd=dst, capture_output=True, text=True)
                tests = "pass" if p.returncode == 0 else "FAIL"
            for prop in m["props"]:
                if a.prop and prop != a.prop:
                    continue
                env = dict(os.environ, VERIF_REPO=dst)
                t0 = time.time()
                cmd = [os.path.join(HERE, "vcheck"), prop, "--tier", a.tier, "--no-evidence"]
                if a.filter_ob:
                    cmd += ["--only", a.filter_ob]
                p = subprocess.run(cmd, capture_output=True, text=True, env=env, cwd=HERE)
                viol = [l for l in p.stdout.splitlines() if l.startswith("VIOLATION")]
                sigs = [l.strip() for l in p.stdout.splitlines() if "signature=" in l]
                rows.append((m["id"], "tests=%s %s exit=%d violations=%d %.0fs %s" % (
                    tests, prop, p.returncode, len(viol), time.time() - t0, sigs[:2])))
                print(rows[-1], flush=True)
        finally:
            shutil.rmtree(tmp, ignore_errors=True)
    print("\n".join("%-40s %s" % r for r in rows))
    missed = [r for r in rows if "exit=1" not in r[1]]
    print("%d mutants/props, %d not detected" % (len(rows), len(missed)))


if __name__ == "__main__":
    main()
