#!/usr/bin/env python3
"""Rebuilds seeded/README.md from seeded/*/meta.json"""
import glob, json, os
HERE = os.path.dirname(os.path.dirname(os.path.abspath(__file__)))
rows = []
for m in sorted(glob.glob(os.path.join(HERE, "seeded", "*", "meta.json"))):
    d = json.load(open(m))
    sid = os.path.basename(os.path.dirname(m))
    notes = os.path.join(os.path.dirname(m), "notes.txt")
    first = d.get("checks_first_run")
    cur = d.get("checks", {})
    def fmt(c):
        return "; ".join("%s exit %s (%s violations, %ss)%s" % (p, v.get("exit"), v.get("violations"), v.get("seconds"),
                         (" first: " + v["first_signatures"][0].split("signature=")[-1]) if v.get("first_signatures") else "")
                         for p, v in c.items())
    rows.append((sid, d.get("breaks_property"), d.get("confirmed"), d.get("pinned_tests_with_change"), fmt(first) if first else "-", fmt(cur),
                 d.get("needs", ""), d.get("strengthened", "")))
out = ["# Seeded changes written by independent sub-agents", "",
       "Each sub-agent got only the text of one property and its own scratch worktree of /repo; nothing from /verif.",
       "A change is kept only after `tools/try_seed.py` confirmed it: the 40 pinned tests pass with the change, the demonstration",
       "fails with it and passes without it.  `meta.json` holds what was run; `patch.diff` applies to /repo's HEAD at the time",
       "(`git -C /repo apply seeded/<id>/patch.diff`, run the check, `git -C /repo checkout -- .`).", "",
       "| seed | breaks | confirmed | pinned tests | first run of the owning check | current check | what it needs to manifest | strengthening |",
       "|---|---|---|---|---|---|---|---|"]
for r in rows:
    out.append("| " + " | ".join(str(x).replace("|", "\\|").replace("\n", " ") for x in r) + " |")
open(os.path.join(HERE, "seeded", "README.md"), "w").write("\n".join(out) + "\n")
print("\n".join(out))
