ALL = ["C%02d" % i for i in range(1, 21)]

TB = ("Trusted base: z3 5.1.0, CrossHair 0.0.110 proxy semantics for int/bytes/list/re, the plug-in models "
      "(struct, bitwise operators, error-message stub; self-validated against CPython and as z3 lemmas at the "
      "start of every run), the harness/oracle text, the replay script. Bounded: holds for every value inside "
      "the stated bounds of every enumerated declaration; nothing is claimed outside them.")

CHECKS = {
    "C05": dict(
        text="Bounded symbolic model checking of the real Int field code: for each enumerated width x signedness x "
             "endianness spelling x class default x code path, z3 decides over ALL byte patterns (decode) and ALL "
             "integers (encode, unbounded) that the value equals the positional two's-complement formula, that "
             "out-of-range / non-integer values raise PacketError. Programs (configurations) are enumerated, inputs are symbolic.",
        design="4/C05",
        technique="symbolic execution of bisturi.field.Int (+ generated code) with CrossHair/z3, positional-formula oracle"),
}

CHECKS["C04"] = dict(
    text="Bounded symbolic model checking, differential: for every catalogue declaration (all integer widths incl. 3,5,6,7,9,12,16 "
         "as last field, Bits groups of 16..48 bits, Data, sequences, optionals, references) and EVERY total input length 0..N "
         "(hence every truncation point of every valid encoding within the bound) z3 decides that acceptance by bisturi implies "
         "acceptance by a strict reference decoder with identical values, and that silent=True returns None exactly when unpack raises.",
    design="4/C04", technique="symbolic execution of Packet.unpack (generic + generated code) vs strict reference interpreter, CrossHair/z3")
CHECKS["C06"] = dict(
    text="Bounded symbolic model checking, differential: Data in every sizing mode (constant, field, expression, callable, bytes "
         "marker 1-3 bytes incl. self-overlapping, regex, EOS) x include_delimiter x search_buffer_length {unset,0,1,2,4}: for all "
         "inputs up to the per-declaration length bound and symbolic start offset, accept/reject, value, and end offset equal the "
         "reference (exact size / first occurrence inside the window).",
    design="4/C06", technique="symbolic execution of bisturi.field.Data unpack strategies vs reference interpreter, CrossHair/z3")
CHECKS["C07"] = dict(
    text="Bounded symbolic model checking of Bits._compile/unpack/pack: all 128 compositions of 8 bits (generic+generated), "
         "compositions of 16 bits (quick: <=3 parts + sample; thorough: all 32768), structured families for 24..128 bits; unpack "
         "over all byte patterns, pack over UNBOUNDED per-field ints; partition identity oracle; modification histories "
         "(pack, change one field, pack); non-multiple-of-8 runs rejected at class creation.",
    design="4/C07", technique="symbolic execution with exact bit-slice algebra for &,|,<<,>> (vlib/bitrep.py), CrossHair/z3")
CHECKS["C08"] = dict(
    text="Bounded symbolic model checking, differential: sequences (count as constant/field/expression/callable, negative counts, "
         "until over list and offsets, when), optionals, Ref to packets and to run-time selected fields/packets, nesting depth <=3: "
         "accept/reject, values, list lengths and end offset equal the reference for all inputs within the length bounds.",
    design="4/C08", technique="symbolic execution of Sequence/Optional/Ref unpack vs reference interpreter, CrossHair/z3")

CHECKS["C01"] = dict(
    text="Bounded symbolic model checking, differential: for every catalogue declaration (excluding the three lossy classes the "
         "property names) x {generic, generated} x every input length up to the bound x symbolic start offset, z3 decides that "
         "pack(unpack(raw, off)) equals raw at every consumed position, holds '.' at skipped positions, is no longer than the "
         "traversed region, and that overlapping reads make pack() raise PacketError (and only those). Known finding F9 (start-of-data "
         "positioning with non-zero start offset) is reported as KNOWN-FINDING.",
    design="4/C01", technique="symbolic execution of unpack+pack vs reference consumed-interval oracle, CrossHair/z3")
CHECKS["C03"] = dict(
    text="Bounded symbolic model checking, 16-way differential: each generator-relevant declaration is compiled under all 15 "
         "non-reference combinations of generate_for_pack/generate_for_unpack/vectorize/annotate and compared with configuration "
         "0000 (generic loop): unpack over symbolic raw/offset (same accept/reject, end, values), pack over symbolic field values "
         "(ints unbounded): same bytes or PacketError on both.",
    design="4/C03", technique="symbolic execution of generated __pkts__ code vs generic loop on the same symbolic inputs, CrossHair/z3")
CHECKS["C10"] = dict(
    text="Bounded symbolic model checking: unit level - the real Move.unpack/Move.pack and Sequence element alignment with an "
         "UNBOUNDED symbolic cursor and packet start for every kind x reference x target form x alignment value (symmetry, documented "
         "position, minimal advance 0<=adv<A); packet level - declarations with modifiers at nesting depth 1-3: bytes of every field at "
         "the same relative position in pack() output, skipped bytes '.', output equals the declared layout.",
    design="4/C10", technique="symbolic execution of Move/Sequence cursor arithmetic (unbounded ints) + packet-level differential, CrossHair/z3")
CHECKS["C14"] = dict(
    text="Bounded symbolic model checking, metamorphic: for every catalogue declaration without start-of-data positioning / raw-inspecting "
         "callbacks: unpack(big, off) == unpack(big[off:], 0) (values, end-off, error stack shifted by off) for symbolic big and off, and "
         "cutting everything after the traversed region changes nothing (the tail is arbitrary => any appended bytes).",
    design="4/C14", technique="symbolic execution of three parses of the same symbolic buffer, metamorphic relation decided by z3")

CHECKS["C12"] = dict(
    text="Bounded symbolic model checking, differential on REJECTED inputs: for catalogue declarations (nesting <=3) x {generic, "
         "generated} x every input length x symbolic offset, whenever both bisturi and the reference reject, z3 decides that the "
         "exception is a PacketError with the unpacking flag, e.packet, an innermost entry naming the failing field (or the generated "
         "run of fixed fields containing it) with the offset where it begins, one entry per enclosing Ref/Sequence field, a working "
         "str(e), and silent=True => None. Pack side: unbounded out-of-range ints, wrong types, colliding at-positions, failing "
         "Auto computations. Non-bytes input => ValueError.",
    design="4/C12", technique="symbolic execution of failing unpack/pack paths vs reference reject-path oracle, CrossHair/z3")

CHECKS["C02"] = dict(
    text="Bounded symbolic model checking: consistent value assignments are generated symbolically as the reference parse of a symbolic "
         "string (so lengths, counts, optional-presence and delimiter-free bodies hold by construction and every consistent assignment "
         "whose encoding fits the bound is covered); the packet is built by constructor and by attribute assignment; z3 decides that "
         "pack() equals the reference encoder's in-order layout, that unpack(pack()) succeeds, consumes everything and yields equal "
         "values, and that assert_consistency() is True.",
    design="4/C02", technique="symbolic execution of constructor+pack+unpack vs reference encoder, values from symbolic reference parse, CrossHair/z3")
CHECKS["C19"] = dict(
    text="Bounded symbolic model checking: for every catalogue declaration (plus declarations with user defaults and nested prototype "
         "defaults) and EVERY subset of the first <=5 value fields overridden by keyword with symbolic values, z3 decides that named "
         "fields read back the given value and all others the declared default (0, NULs of declared size, b'', fresh prototype copy, "
         "given/empty list, None/given), that defaults are not shared objects, and that pack() is the reference encoding of those values.",
    design="4/C19", technique="symbolic execution of Packet.__init__/field.init + pack vs declared-default table and reference encoder, CrossHair/z3")
CHECKS["C20"] = dict(
    text="Bounded symbolic model checking: for catalogue declarations (emphasis on at/shift/aligned/class align/Em) x {generic, generated}: "
         "two parses of the same symbolic bytes are ==, != is its negation, repr() returns, comparison with another class / non-packets is "
         "False, none raises; changing any one value-bearing field (also one level down) by a symbolic non-zero delta makes them unequal.",
    design="4/C20", technique="symbolic execution of Packet.__eq__/__repr__ over symbolic parses, CrossHair/z3")

CHECKS["C09"] = dict(
    text="Two solver layers over the real compile_expr/exec_compiled_expr: (A) EUF - operand values are terms of an uninterpreted sort and "
         "every operator an uninterpreted function; for each generated tree (every binary operator in both operand orders incl. reflected "
         "forms, nesting to depth 3) z3 proves, with no axioms, that the deferred term equals the eagerly built term: operand order and stack "
         "discipline for ALL values; (B) CrossHair - x, y symbolic ints, a 3-element sequence: same value or same exception type, incl. truth, "
         "len, indexing/slicing, chooses (list, args, dict, keyword) and if_true_then_else.",
    design="4/C09", technique="z3 EUF equivalence of deferred vs eager terms + symbolic execution of the stack machine on symbolic values (CrossHair/z3)")
CHECKS["C11"] = dict(
    text="Bounded symbolic model checking of Fragments: inductive step - one insert(p, s) from an ARBITRARY state satisfying the "
         "representation invariant (<=3 prior fragments, chunk lengths 0..3, positions symbolic and UNBOUNDED, contents symbolic, incl. "
         "duplicate start entries): raises <=> an occupied byte intersects, else stored exactly, cursor, earlier chunks unaltered, start list "
         "sorted; tobytes from arbitrary states; plus all (quick: half of) real histories of 3 append/extend/insert ops vs a sparse-array reference.",
    design="4/C11", technique="inductive-step symbolic execution of Fragments.insert/tobytes with symbolic-key map proxy, CrossHair/z3")

CHECKS["C17"] = dict(
    text="Bounded symbolic model checking of the Auto/AutoLength state machine: ALL operation histories (construct with / without the "
         "described or tracked keyword, then up to 3 (thorough 4) of: set tracked, set described, delete described, unpack, pack) for "
         "AutoLength over Data, AutoLength over a sequence and Auto(lambda), generic and generated code; every assigned value symbolic "
         "(explicit ints unbounded); after every step the attribute equals explicit ?? f(tracked), pack() serialises exactly that "
         "(PacketError iff unrepresentable), instances have no __dict__.",
    design="4/C17", technique="exhaustive history enumeration x symbolic values, symbolic execution of descriptor.Auto + sync hooks, CrossHair/z3")
CHECKS["C18"] = dict(
    text="Bounded symbolic model checking: flat declarations over Int, Bits, Data (constant / field / expression size, kept and non-kept "
         "bytes markers incl. regex metacharacters, kept regex, EOS) x EVERY subset of fields left as Any x literal values stressing "
         "escaping and fixed-high/low/mixed bit patterns; candidate string symbolic for every length: pattern == unpack(raw) implies the "
         "derived regular expression matches raw (CrossHair's symbolic regex engine + z3); building never raises; filter() with and "
         "without the pre-filter agree on symbolic corpora.",
    design="4/C18", technique="symbolic execution of unpack + equality + regex matching over symbolic candidate bytes, CrossHair/z3")

CHECKS["C13"] = dict(
    text="Bounded symbolic model checking of histories over several live packets: a bystander (parsed from symbolic bytes or default) "
         "is observed before/after every history of 2 (thorough 3) operations (construct, unpack of symbolic bytes, attribute sets with "
         "symbolic values, list append, pack) on other packets of the same / related classes (shared sub-packet class, prototype, default "
         "list, regex-delimited Data); aliasing and purity obligations; a shared-write monitor asserts that NO path of unpack/pack changes "
         "an attribute of a field object shared by the class. Thread schedules are not explored: 'no shared writes' is the sufficient "
         "condition offered (the one shared write found, F2, was repaired in /repo 1bfe930).",
    design="4/C13", note="Thread interleavings are outside this technique (CrossHair is single-threaded); only the no-shared-write "
    "sufficient condition is decided. ", technique="symbolic execution of operation histories + write monitor on shared field objects, CrossHair/z3")
CHECKS["C15"] = dict(
    text="Real metaclass + CodeGenerator.generate_code under step-counting wrappers around the real os/open/SourceFileLoader (real files, "
         "real byte-code): (a) cached cookie = arbitrary symbolic 40-char string: z3 decides 'foreign functions installed => cookie equal'; "
         "(b) all histories of 3 definitions over 7 same-named declarations (same-size sources, changed options, generation off/on) x "
         "same/fresh process x byte-code on/off x frozen mtime; (c) cache seeded with source of declaration j and trusted stale byte-code of "
         "declaration jp: every definition succeeds and behaves like its generic twin. Indices are solver variables; each path is concrete.",
    design="4/C15", technique="CrossHair path enumeration over cache states/histories on the real import system + symbolic cookie string (z3)")
CHECKS["C16"] = dict(
    text="Same environment: the defining process dies after file-system step k (16 steps) with a torn write of c bytes (quick: 17 positions, "
         "thorough: every byte), then a fresh process defines each declaration; and a second process' write side (7 steps) is interleaved "
         "at one (thorough: two) cut point(s) of our 14 operations, cache initially empty or stale. Asserted: the later / concurrent "
         "definition succeeds and behaves per its own declaration (holds since the cache update was made atomic, /repo 6179c10; the 7 "
         "failure classes of the old in-place update are what the check reported before).",
    design="4/C16", note="Bounded: 1 crash, 2 processes, <=2 scheduling cut points; OS semantics 'a write may be torn at any byte, "
    "operations otherwise atomic'. ", technique="CrossHair path enumeration over crash step / torn length / schedule cut points on real files, replay on the real FS")

NA_REASON = "check not built yet in this round (planned: DESIGN.md section 4); no claim is made"


def manifest():
    checks = []
    for pid in ALL:
        if pid not in CHECKS:
            continue
        c = CHECKS[pid]
        checks.append({
            "property_id": pid,
            "quick_cmd": "./vcheck %s --tier quick" % pid,
            "thorough_cmd": "./vcheck %s --tier thorough" % pid,
            "evidence_file": "evidence/%s.json" % pid,
            "replay_cmd_template": "./vcheck %s --replay {path}" % pid,
            "engine": "chx",
            "level_claimed": {"category": "model_checking", "text": c["text"], "design_ref": c["design"]},
            "level_note": c.get("note", "") + TB,
            "technique": c["technique"],
        })
    na = [{"property_id": pid, "reason": NA.get(pid, NA_REASON)} for pid in ALL if pid not in CHECKS]
    return {
        "version": 1,
        "setup_cmd": "./setup.sh",
        "hooks": {
            "guard": "BISTURI_VERIF",
            "enable": "none needed: all instrumentation is installed by monkey-patching inside the checker process; "
                      "/repo is only read (PYTHONPATH=/repo under python3-vt)",
            "baseline_off_cmd": "cd /repo && /venv/bin/python -m pytest -ra -q -p no:cacheprovider --timeout=900 "
                                "--continue-on-collection-errors",
            "source_commits": [],
            "add_only": True,
        },
        "engines": [
            {"name": "chx", "path": "vlib/engine.py", "serves_properties": sorted(CHECKS),
             "kind_free_text": "CrossHair 0.0.110 symbolic execution of the real bisturi modules, path-exhaustive, z3 per "
                               "path; plug-in models in vlib/plugin.py; driver vlib/driver.py; replay vlib/replay.py"},
        ],
        "checks": checks,
        "not_applicable": na,
        "notes": "Every check: exit 0 = all obligations discharged by the solver within bounds; exit 1 + VIOLATION line = "
                 "a solver counterexample that reproduced on /venv/bin/python against /repo; exit 2 = inconclusive "
                 "(timeout/unknown/non-reproducing), never reported as success.",
    }


NA = {}
