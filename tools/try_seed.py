#!/usr/bin/env python3
"""Confirm a sub-agent's seeded change and run the owning check against it.
usage: tools/try_seed.py <seed id, e.g. C11> [--props C11,C01] [--tier quick] [--only substr]
The change lives in the scratch worktree /tmp/seed_<id> (applied), its outputs in /tmp/seedout_<id>."""
import argparse, json, os, shutil, subprocess, sys, time
HERE = os.path.dirname(os.path.dirname(os.path.abspath(__file__)))


def run(cmd, **kw):
    return subprocess.run(cmd, capture_output=True, text=True, **kw)


def main():
    ap = argparse.ArgumentParser()
    ap.add_argument("sid")
    ap.add_argument("--props")
    ap.add_argument("--tier", default="quick")
    ap.add_argument("--only")
    ap.add_argument("--keep-as")
    ap.add_argument("--needs", default=None)
    ap.add_argument("--strengthened", default=None)
    ap.add_argument("--first-run-missed", default=None, help="text describing the result before strengthening when it was not recorded")
    a = ap.parse_args()
    wt, out = "/tmp/seed_%s" % a.sid, "/tmp/seedout_%s" % a.sid
    props = (a.props or a.sid[:3]).split(",")
    env = dict(os.environ, PYTHONPATH=wt, PYTHONDONTWRITEBYTECODE="1")
    meta = {"seed": a.sid, "breaks_property": props[0], "worktree": wt}
    diff = run(["git", "-C", wt, "diff"]).stdout
    assert diff.strip(), "no change applied in " + wt
    t = run(["/venv/bin/python", "-m", "pytest", "-q", "-p", "no:cacheprovider", "tests"], cwd=wt)
    meta["pinned_tests_with_change"] = t.stdout.strip().splitlines()[-1] if t.stdout.strip() else t.stderr[-200:]
    shutil.rmtree(os.path.join(out, "__pkts__"), ignore_errors=True)
    d1 = run(["/venv/bin/python", os.path.join(out, "demo.py")], cwd=wt, env=env)
    meta["demo_with_change_exit"] = d1.returncode
    meta["demo_with_change_tail"] = (d1.stdout + d1.stderr).strip().splitlines()[-1:] 
    patchfile = os.path.join(out, "_try_seed.diff")
    open(patchfile, "w").write(diff)
    assert run(["git", "-C", wt, "apply", "-R", patchfile]).returncode == 0
    try:
        shutil.rmtree(os.path.join(out, "__pkts__"), ignore_errors=True)
        d0 = run(["/venv/bin/python", os.path.join(out, "demo.py")], cwd=wt, env=env)
        meta["demo_without_change_exit"] = d0.returncode
    finally:
        assert run(["git", "-C", wt, "apply", patchfile]).returncode == 0
    shutil.rmtree(os.path.join(out, "__pkts__"), ignore_errors=True)
    ok = t.returncode == 0 and d1.returncode != 0 and d0.returncode == 0
    meta["confirmed"] = ok
    print(json.dumps(meta, indent=1))
    meta["checks"] = {}
    for p in props:
        cmd = [os.path.join(HERE, "vcheck"), p, "--tier", a.tier, "--no-evidence"]
        if a.only:
            cmd += ["--only", a.only]
        t0 = time.time()
        r = run(cmd, env=dict(os.environ, VERIF_REPO=wt), cwd=HERE)
        sigs = [l.strip() for l in r.stdout.splitlines() if "signature=" in l]
        meta["checks"][p] = {"cmd": "VERIF_REPO=%s %s" % (wt, " ".join(cmd)), "exit": r.returncode, "seconds": round(time.time() - t0),
                             "violations": len([l for l in r.stdout.splitlines() if l.startswith("VIOLATION")]), "first_signatures": sigs[:3],
                             "summary": r.stdout.strip().splitlines()[-1] if r.stdout.strip() else ""}
        print(p, json.dumps(meta["checks"][p], indent=1))
    dst = os.path.join(HERE, "seeded", a.keep_as or a.sid)
    os.makedirs(dst, exist_ok=True)
    prev = os.path.join(dst, "meta.json")
    if os.path.exists(prev):
        old = json.load(open(prev))
        first = old.get("checks_first_run", old.get("checks"))
        if first and any(c.get("exit") != 1 for c in first.values()):
            meta["checks_first_run"] = first      # what the checks said before they were strengthened
    open(os.path.join(dst, "patch.diff"), "w").write(diff)
    for f in ("demo.py", "notes.txt"):
        if os.path.exists(os.path.join(out, f)):
            shutil.copy(os.path.join(out, f), os.path.join(dst, f))
    if os.path.exists(prev):
        old = json.load(open(prev))
        for k in ("needs", "strengthened", "checks_first_run"):
            if k in old and k not in meta:
                meta[k] = old[k]
    if a.needs:
        meta["needs"] = a.needs
    if a.strengthened:
        meta["strengthened"] = a.strengthened
    if a.first_run_missed:
        meta["checks_first_run"] = {props[0]: {"exit": "missed", "violations": 0, "seconds": "-", "summary": a.first_run_missed}}
    json.dump(meta, open(os.path.join(dst, "meta.json"), "w"), indent=1)


if __name__ == "__main__":
    main()
