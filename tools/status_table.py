#!/usr/bin/env python3
"""Prints the §0 status table of DESIGN.md from the committed evidence files."""
import glob, json, os
HERE = os.path.dirname(os.path.dirname(os.path.abspath(__file__)))
print("| id | obligations | paths | z3 checks | wall s | result |")
print("|----|------------:|------:|----------:|-------:|--------|")
for f in sorted(glob.glob(os.path.join(HERE, "evidence", "C*.json"))):
    d = json.load(open(f)); c = d["coverage"]
    res = "discharged" if c["discharged"] + c.get("refuted_known", 0) * 0 == c["obligations"] - (c["obligations"] - c["discharged"]) else ""
    extra = ""
    if c.get("known_findings_reported"):
        extra = "; KNOWN-FINDING " + ", ".join(c["known_findings_reported"])
    n = lambda x: ("%.1f M" % (x / 1e6)) if x >= 1e6 else (("%d k" % round(x / 1e3)) if x >= 1e4 else str(x))
    print("| %s | %d | %s | %s | %.0f | %d discharged%s |" % (d["property_id"], c["obligations"], format(c["states"], ","), n(c["transitions"]),
                                                            d["wall_s"], c["discharged"], extra))
