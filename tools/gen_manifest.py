#!/usr/bin/env python3
"""Regenerates MANIFEST.json from tools/manifest_src.py (kept as code so texts stay consistent)."""
import json, os, sys
HERE = os.path.dirname(os.path.dirname(os.path.abspath(__file__)))
sys.path.insert(0, os.path.join(HERE, "tools"))
import manifest_src as M
json.dump(M.manifest(), open(os.path.join(HERE, "MANIFEST.json"), "w"), indent=1)
print("wrote MANIFEST.json with", len(M.manifest()["checks"]), "checks")
