#!/bin/sh
# Offline setup: nothing to build or install. The checks run under the pre-installed tooling
# interpreter (python3-vt: crosshair-tool, z3-solver) with PYTHONPATH=/repo, and replay under
# /venv/bin/python.  This script only verifies that those pieces are present.
set -e
HERE="$(cd "$(dirname "$0")" && pwd)"
python3-vt -c "import crosshair, z3; print('crosshair ok, z3', z3.get_version_string())"
PYTHONPATH="${VERIF_REPO:-/repo}:$HERE" python3-vt -m vlib.plugin
PYTHONPATH="${VERIF_REPO:-/repo}" /venv/bin/python -c "import bisturi; print('bisturi', bisturi.__version__)"
mkdir -p "$HERE/evidence" "$HERE/replays"
