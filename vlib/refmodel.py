"""Reference model: an independent interpreter of `Spec` declarations (vlib/spec.py).

Written from the documentation and the property statements, not from bisturi's code:
strict lengths, first-occurrence delimiters inside the search window, MSB-first bit slices,
max(count, 0) elements, do-while `until`, minimal alignment, three reference points.
Plain Python over bytes/int, so CrossHair executes it symbolically next to the real code.

    ref_unpack(decl, raw, off)  -> Parsed(values, end, consumed, furthest)   or raises Reject
    ref_pack(decl, values)      -> bytes (holes filled with '.')             or raises Reject
"""
import re as _re

from vlib import spec as S


class Reject(Exception):
    """path: [(offset, field name, class name)] innermost first"""

    def __init__(self, offset, fname, cname, why, name_override=None):
        Exception.__init__(self, why)
        self.path = []            # filled while unwinding: one entry per packet level, innermost first
        self.leaf = (offset, fname, cname)
        self.why = why
        self.name_override = name_override
        self.levels = []          # (decl, {field name: start offset}) per level, innermost first


class V:
    """values of one packet: attribute access like a packet instance"""

    def __init__(self, cname):
        object.__setattr__(self, "_cname", cname)
        object.__setattr__(self, "_names", [])

    def __setattr__(self, k, v):
        if k not in self._names:
            self._names.append(k)
        object.__setattr__(self, k, v)

    def as_dict(self):
        return dict((k, getattr(self, k)) for k in self._names)


def plain(v):
    """nested V / list -> dict / list of plain values"""
    if isinstance(v, V):
        return ("pkt", v._cname, [(k, plain(getattr(v, k))) for k in v._names])
    if isinstance(v, list):
        return [plain(x) for x in v]
    return v


class Parsed:
    def __init__(self, values, end, consumed, furthest):
        self.values, self.end, self.consumed, self.furthest = values, end, consumed, furthest


_eval_cache = {}


def _compiled(text):
    c = _eval_cache.get(text)
    if c is None:
        c = _eval_cache[text] = compile(text, "<spec>", "eval")
    return c


def dyn_value(d, vals, raw=None, cur=None, k=None):
    if d.kind == "const":
        return d.v
    if d.kind == "field":
        return getattr(vals, d.v)
    if d.kind == "expr":
        return eval(_compiled(d.v), {}, vals.as_dict())
    fn = eval(_compiled(d.v), {"len": len})
    kw = dict(k or {})
    if raw is not None:
        kw["raw"] = raw
        kw["offset"] = cur
    return fn(pkt=vals, **kw)


def _truth(x):
    # a field used as a condition means "non-zero" / "non-empty"
    if isinstance(x, (bytes, list)):
        return len(x) != 0
    return bool(x)


class Ctx:
    def __init__(self, raw):
        self.raw = raw
        self.n = len(raw)
        self.consumed = []      # (start, end, kind) of every leaf read
        self.furthest = 0
        self.reads = []         # (start, name) order of leaf reads, for C10

    def take(self, cur, n, fname, cname):
        if n < 0:
            raise Reject(cur, fname, cname, "negative size")
        if cur < 0 or (n > 0 and cur + n > self.n):
            # (a read of ZERO bytes needs no input: like an empty sequence or an Em it is accepted wherever the cursor is,
            # also beyond the end of the input)
            raise Reject(cur, fname, cname, "short read")
        if n:
            self.consumed.append((cur, cur + n))
        if cur + n > self.furthest:
            self.furthest = cur + n
        return self.raw[cur:cur + n]

    def touch(self, pos):
        if pos > self.furthest:
            self.furthest = pos


def _little(endian, opts):
    import sys
    e = endian if endian is not None else opts.get("endianness", "big")
    if e == "local":
        return sys.byteorder == "little"
    return e == "little"


def _int_value(b, n, little, signed):
    val = 0
    for i in range(n):
        byt = b[n - 1 - i] if little else b[i]
        val = val * 256 + byt
    if signed and n:
        top = b[n - 1] if little else b[0]
        if top >= 128:
            val = val - (1 << (8 * n))
    return val


def _apply_move(f, vals, cur, pktstart, ctx, k, opts, fname, cname):
    move = f.move
    if move is None and "align" in opts:
        move = ("aligned", S.K(opts["align"]), "begins")
    if move is None:
        return cur
    kind, d, ref = move
    val = dyn_value(d, vals, ctx.raw, cur, k)
    if ref == "begins":
        start = 0
    elif ref == "current-offset":
        start = cur
    else:
        start = pktstart
    if kind == "aligned":
        if val <= 0:
            raise Reject(cur, fname, cname, "non-positive alignment")
        adv = (val - ((cur - start) % val)) % val
        new = cur + adv
    elif kind == "shift":
        new = cur + val
    else:
        new = start + val
    ctx.touch(new)
    return new


def _unpack_field(f, fname, vals, cur, pktstart, ctx, k, opts, cname):
    """-> (value, new cursor).  Moves are applied by the caller."""
    raw = ctx.raw
    if isinstance(f, S.Int):
        b = ctx.take(cur, f.n, fname, cname)
        return _int_value(b, f.n, _little(f.endian, opts), f.signed), cur + f.n
    if isinstance(f, S.Data):
        if f.size is not None:
            n = dyn_value(f.size, vals, raw, cur, k)
            b = ctx.take(cur, n, fname, cname)
            return b, cur + n
        if f.regex == b"$":
            n = ctx.n - cur
            b = ctx.take(cur, n, fname, cname)
            return b, cur + n
        sbl = opts.get("search_buffer_length")
        wend = ctx.n if not sbl else min(ctx.n, cur + sbl)
        if cur > ctx.n:
            raise Reject(cur, fname, cname, "delimiter not found")
        if f.until is not None:
            m = f.until
            lm = len(m)
            pos = None
            i = cur
            while i + lm <= wend:
                if raw[i:i + lm] == m:
                    pos = i
                    break
                i += 1
            if pos is None:
                raise Reject(cur, fname, cname, "delimiter not found")
            dstart, dend = pos, pos + lm
        else:
            mt = _re.compile(f.regex).search(raw[cur:wend])
            if not mt:
                raise Reject(cur, fname, cname, "delimiter not found")
            dstart, dend = cur + mt.start(), cur + mt.end()
        if f.include:
            b = ctx.take(cur, dend - cur, fname, cname)
        else:
            b = ctx.take(cur, dstart - cur, fname, cname)
            ctx.take(dstart, dend - dstart, fname, cname)
        return b, dend
    if isinstance(f, S.Ref):
        sub = V(f.decl.name)
        end = _unpack_decl(f.decl, sub, cur, ctx, k, fname, cname)
        return sub, end
    if isinstance(f, S.RefSel):
        key = dyn_value(f.key, vals, raw, cur, k)
        chosen = f.other
        for val, opt in f.options.items():
            if key == val:
                chosen = opt
                break
        if isinstance(chosen, S.Decl):
            sub = V(chosen.name)
            end = _unpack_decl(chosen, sub, cur, ctx, k, fname, cname)
            return sub, end
        return _unpack_field(chosen, fname, vals, cur, pktstart, ctx, k, {}, cname)
    if isinstance(f, S.Seq):
        seq = []
        setattr(vals, fname, seq)
        a = f.aligned_to if f.aligned_to is not None else opts.get("align", 1)
        if f.count is not None:
            cnt = dyn_value(f.count, vals, raw, cur, k)
        else:
            cnt = None
        if f.when is not None:
            if not _truth(dyn_value(f.when, vals, raw, cur, k)):
                return seq, cur
        if cnt is not None:
            i = 0
            while i < cnt:
                cur = cur + (a - cur % a) % a
                ctx.touch(cur)
                v, cur = _unpack_field(f.elem, fname, vals, cur, pktstart, ctx, k, opts, cname)
                seq.append(v)
                i += 1
            return seq, cur
        while True:
            cur = cur + (a - cur % a) % a
            ctx.touch(cur)
            v, cur = _unpack_field(f.elem, fname, vals, cur, pktstart, ctx, k, opts, cname)
            seq.append(v)
            if _truth(dyn_value(f.until, vals, raw, cur, k)):
                return seq, cur
    if isinstance(f, S.Opt):
        if _truth(dyn_value(f.when, vals, raw, cur, k)):
            return _unpack_field(f.elem, fname, vals, cur, pktstart, ctx, k, opts, cname)
        return None, cur
    if isinstance(f, S.Em):
        return None, cur
    raise TypeError(f)


def bits_groups(fields):
    """indices of fields grouped into runs of consecutive Bits (a move in front of a Bits field starts a new run)"""
    groups, i = {}, 0
    while i < len(fields):
        name, f = fields[i]
        if isinstance(f, S.Bits):
            j = i
            run = [i]
            while j + 1 < len(fields) and isinstance(fields[j + 1][1], S.Bits) and fields[j + 1][1].move is None:
                j += 1
                run.append(j)
            for x in run:
                groups[x] = run
            i = j + 1
        else:
            i += 1
    return groups


def _unpack_decl(decl, vals, cur, ctx, k, parent_fname=None, parent_cname=None):
    pktstart = cur
    opts = decl.opts
    groups = bits_groups(decl.fields)
    starts = {}
    object.__setattr__(vals, "_starts", starts)
    fname = None
    idx = 0
    while idx < len(decl.fields):
        fname, f = decl.fields[idx]
        before_move = cur
        try:
            cur = _apply_move(f, vals, cur, pktstart, ctx, k, opts, fname, decl.name)
        except Reject as e:
            e.path.append((before_move, "_shift_to_" + fname, decl.name))
            e.levels.append((decl, starts))
            raise
        start_of_field = cur
        starts[fname] = cur
        try:
            if isinstance(f, S.Bits):
                run = groups[idx]
                total = sum(decl.fields[x][1].w for x in run)
                nb = total // 8
                b = ctx.take(cur, nb, fname, decl.name)
                whole = _int_value(b, nb, False, False)
                shift = total
                for x in run:
                    n2, f2 = decl.fields[x]
                    shift -= f2.w
                    starts[n2] = cur
                    setattr(vals, n2, (whole // (1 << shift)) % (1 << f2.w))
                cur += nb
                idx = run[-1] + 1
                continue
            if isinstance(f, S.Em):
                idx += 1
                continue
            v, cur = _unpack_field(f, fname, vals, cur, pktstart, ctx, k, opts, decl.name)
            setattr(vals, fname, v)
            idx += 1
        except Reject as e:
            e.path.append((start_of_field, fname, decl.name))
            e.levels.append((decl, starts))
            raise
    return cur


def ref_unpack(decl, raw, off=0):
    ctx = Ctx(raw)
    ctx.furthest = off
    vals = V(decl.name)
    end = _unpack_decl(decl, vals, off, ctx, {})
    ctx.touch(end)
    return Parsed(vals, end, ctx.consumed, ctx.furthest)


# ---------------------------------------------------------------------------------------------------
# encoder
# ---------------------------------------------------------------------------------------------------
class Out:
    def __init__(self):
        self.chunks = []   # (pos, bytes) in emission order
        self.positions = {}  # field name -> position where its (first) chunk was placed, outermost packet
        self.cur = 0
        self.extent = 0

    def put(self, b, fname, cname):
        n = len(b)
        self.chunks.append((self.cur, b))
        self.cur += n
        if self.cur > self.extent:
            self.extent = self.cur

    def render(self, fill=b"."):
        """sparse layout -> bytes; overlapping non-empty chunks -> Reject"""
        spans = [(p, p + len(b)) for p, b in self.chunks if len(b)]
        for i in range(len(spans)):
            for j in range(i + 1, len(spans)):
                if spans[i][0] < spans[j][1] and spans[j][0] < spans[i][1]:
                    raise Reject(spans[j][0], "?", "?", "overlap")
        ext = 0
        for p, b in self.chunks:
            if p + len(b) > ext:
                ext = p + len(b)
        out = []
        pos = 0
        for p, b in sorted(self.chunks, key=lambda c: c[0]):
            if len(b) == 0:
                continue
            out.append(fill * (p - pos))
            out.append(b)
            pos = p + len(b)
        out.append(fill * (ext - pos))
        return b"".join(out)


def _int_bytes(v, n, little, signed, fname, cname, cur):
    if isinstance(v, bool) or not isinstance(v, int):
        raise Reject(cur, fname, cname, "not an integer")
    lo = -(1 << (8 * n - 1)) if signed else 0
    hi = (1 << (8 * n - 1)) - 1 if signed else (1 << (8 * n)) - 1
    if v < lo or v > hi:
        raise Reject(cur, fname, cname, "out of range")
    if v < 0:
        v = v + (1 << (8 * n))
    parts = [(v // (1 << (8 * i))) % 256 for i in range(n)]
    if not little:
        parts.reverse()
    return bytes(parts)


def _pack_move(f, vals, out, pktstart, k, opts, fname):
    move = f.move
    if move is None and "align" in opts:
        move = ("aligned", S.K(opts["align"]), "begins")
    if move is None:
        return
    kind, d, ref = move
    val = dyn_value(d, vals, None, None, k)
    cur = out.cur
    start = 0 if ref == "begins" else (cur if ref == "current-offset" else pktstart)
    if kind == "aligned":
        cur = cur + (val - ((cur - start) % val)) % val
    elif kind == "shift":
        cur = cur + val
    else:
        cur = start + val
    out.cur = cur


def _pack_field(f, fname, v, vals, out, pktstart, k, opts, cname):
    if isinstance(f, S.Int):
        out.put(_int_bytes(v, f.n, _little(f.endian, opts), f.signed, fname, cname, out.cur), fname, cname)
    elif isinstance(f, S.Data):
        b = v
        if f.until is not None and not f.include:
            b = v + f.until
        out.put(b, fname, cname)
    elif isinstance(f, S.Ref):
        _pack_decl(f.decl, v, out, k)
    elif isinstance(f, S.RefSel):
        if isinstance(v, V):
            d = None
            for o in list(f.options.values()) + [f.other]:
                if isinstance(o, S.Decl) and o.name == v._cname:
                    d = o
            _pack_decl(d, v, out, k)
        else:
            key = dyn_value(f.key, vals, None, None, k)
            chosen = f.other
            for val, opt in f.options.items():
                if key == val:
                    chosen = opt
                    break
            _pack_field(chosen, fname, v, vals, out, pktstart, k, {}, cname)
    elif isinstance(f, S.Seq):
        a = f.aligned_to if f.aligned_to is not None else opts.get("align", 1)
        for x in v:
            out.cur = out.cur + (a - out.cur % a) % a
            _pack_field(f.elem, fname, x, vals, out, pktstart, k, opts, cname)
    elif isinstance(f, S.Opt):
        if v is not None:
            _pack_field(f.elem, fname, v, vals, out, pktstart, k, opts, cname)
    elif isinstance(f, S.Em):
        out.put(b"", fname, cname)
    else:
        raise TypeError(f)


def _pack_decl(decl, vals, out, k, top=False):
    pktstart = out.cur
    opts = decl.opts
    groups = bits_groups(decl.fields)
    idx = 0
    while idx < len(decl.fields):
        fname, f = decl.fields[idx]
        _pack_move(f, vals, out, pktstart, k, opts, fname)
        if top:
            out.positions[fname] = out.cur
        if isinstance(f, S.Bits):
            run = groups[idx]
            total = sum(decl.fields[x][1].w for x in run)
            whole = 0
            shift = total
            for x in run:
                n2, f2 = decl.fields[x]
                shift -= f2.w
                whole = whole + (getattr(vals, n2) % (1 << f2.w)) * (1 << shift)
            out.put(_int_bytes(whole, total // 8, False, False, fname, decl.name, out.cur), fname, decl.name)
            idx = run[-1] + 1
            continue
        v = None if isinstance(f, S.Em) else getattr(vals, fname)
        _pack_field(f, fname, v, vals, out, pktstart, k, opts, decl.name)
        idx += 1


def ref_pack(decl, vals):
    out = Out()
    _pack_decl(decl, vals, out, {}, top=True)
    return out.render()


def ref_layout(decl, vals):
    """positions of the top-level fields on output (no rendering, no overlap check)"""
    out = Out()
    try:
        _pack_decl(decl, vals, out, {}, top=True)
    except Reject:
        pass
    return out.positions


# ---------------------------------------------------------------------------------------------------
# observation of a real bisturi packet in the same shape as plain(V)
# ---------------------------------------------------------------------------------------------------
def observe(pkt, decl):
    """field values of a bisturi packet, shaped like plain(reference values)"""
    out = []
    for fname, f in decl.fields:
        if isinstance(f, S.Em):
            continue
        out.append((fname, _obs(getattr(pkt, fname), f)))
    return ("pkt", decl.name, out)


def _obs(v, f):
    if isinstance(f, S.Ref):
        return observe(v, f.decl)
    if isinstance(f, S.RefSel):
        for o in list(f.options.values()) + [f.other]:
            if isinstance(o, S.Decl) and type(v).__name__ == o.name:
                return observe(v, o)
        return v
    if isinstance(f, S.Seq):
        return [_obs(x, f.elem) for x in v]
    if isinstance(f, S.Opt):
        return None if v is None else _obs(v, f.elem)
    return v
