"""Obligations over catalogue declarations: one scratch module per (declaration, code path) holding the real
class statements and thin harness wrappers, one harness per total input length."""
from vlib import spec as S
from vlib.catalogue import CAT

TEMPLATE = '''%(prelude)s
from vlib.catalogue import get
from vlib import diffh as H
from vlib import refmodel as R
SPEC = get(%(key)r)

%(classes)s
CLS = %(cname)s
%(extra)s
'''

FN = '''
def h_%(tag)s(raw: bytes, off: int) -> str:
    raw = fix(raw, %(T)d)
    assume(%(offlo)d <= off <= %(offhi)d)
    return %(call)s
'''


def obligations(prop, entries, tier, call, gens=("generic", "generated"), offmax=None, offmin=0, required=("accepted",),
                extra_src="", idsuffix="", lengths=None, timeout=None, assertion="", extra_len=0, min_len=0):
    """call: expression text using SPEC, CLS, raw, off and KEY, e.g. 'H.h_equiv(SPEC, CLS, raw, off, KEY, "C06")'"""
    obs = []
    if offmax is None:
        offmax = 1 if tier == "quick" else 2
    for e in entries:
        key, decl = e["key"], e["decl"]
        lmax = (e["lq"] if tier == "quick" else e["lt"]) + extra_len
        for gen in gens:
            classes = S.render_all(decl, gen)
            src = TEMPLATE % dict(prelude=S.PRELUDE, key=key, classes=classes, cname=decl.name, extra=extra_src)
            src = src.replace("KEY", repr(key))
            fns = []
            ts = lengths if lengths is not None else list(range(min_len, lmax + offmax + 1))
            if lengths is None and tier == "quick" and lmax > 12:
                # long flat declarations: every third length plus the complete / one-short / one-long inputs
                ts = sorted(set(list(range(min_len, lmax, 3)) + [lmax - 1, lmax, lmax + 1]))
            for T in ts:
                tag = "T%d" % T
                src += FN % dict(tag=tag, T=T, offlo=offmin, offhi=min(offmax, T) if offmin == 0 else offmax,
                                 call=call.replace("KEY", repr(key)))
                fns.append("h_" + tag)
            obs.append({
                "id": "%s/%s/%s%s" % (prop, key, gen, idsuffix),
                "module": ("m_%s_%s_%s%s" % (prop, key, gen, idsuffix)).replace("-", "_").replace("/", "_").lower(),
                "source": src, "fn": fns,
                "required_tags": [t for t in required if not (t == "accepted" and "noaccept" in e["tags"])],
                "entry_tags": sorted(e["tags"]),
                "bound": "raw = symbolic bytes of every total length %d..%d, start offset symbolic in [%d,%d]; "
                         "declaration %s (%s code)" % (min(ts), max(ts), offmin, offmax, key, gen),
                "assertion": assertion,
                "decl_text": classes,
                "timeout": timeout,
            })
    for o in obs:
        if o["timeout"] is None:
            del o["timeout"]
    return obs
