"""Symbolic byte strings of a *concrete* length whose slices may have symbolic bounds.

CrossHair's own symbolic `bytes` realises slice bounds (one path per value of a length field).
Here the wire string has a fixed concrete length T (every obligation fixes it), its bytes are T
solver variables, `raw[a:b]` with symbolic a/b is a lazy view (bounds clamped by comparison, like
Python does), `view[i]` is an if-then-else chain over the T variables, and `len(view)` is the
symbolic difference of the bounds.  So a length field larger than the remaining input is ONE path
(the read is short), not one path per value.

Plain Python executed under CrossHair's tracer: comparisons on symbolic ints fork as usual.
"""
import collections.abc

import z3
from crosshair.libimpl.builtinslib import SymbolicBytes, SymbolicInt
from crosshair.simplestructs import concatenate_sequences
from crosshair.tracers import NoTracing


class _Concat:
    def __add__(self, other):
        if isinstance(other, collections.abc.Sequence):
            return concatenate_sequences(self, other)
        return NotImplemented

    def __radd__(self, other):
        if isinstance(other, collections.abc.Sequence):
            return concatenate_sequences(other, self)
        return NotImplemented


_FORCE_VIEW = False   # validation only: take the lazy-view path on concrete bounds as well


def _concrete(x):
    if _FORCE_VIEW:
        return False
    with NoTracing():
        return type(x) is int or type(x) is bool


def _select(items, idx):
    """items[idx] for a symbolic idx known to satisfy 0 <= idx < len(items)"""
    with NoTracing():
        iv = idx.var
        n = len(items)
        term = items[n - 1].var if isinstance(items[n - 1], SymbolicInt) else z3.IntVal(int(items[n - 1]))
        for i in range(n - 2, -1, -1):
            t = items[i].var if isinstance(items[i], SymbolicInt) else z3.IntVal(int(items[i]))
            term = z3.If(iv == i, t, term)
        return SymbolicInt(term)


def _clamp(v, n, default):
    if v is None:
        return default
    if v < 0:
        v = v + n
        if v < 0:
            v = 0
    elif v > n:
        v = n
    return v


class FixedSeq(_Concat, collections.abc.Sequence):
    def __init__(self, items):
        self.items = list(items)

    def __len__(self):
        return len(self.items)

    def __iter__(self):
        return iter(self.items)

    def __getitem__(self, key):
        n = len(self.items)
        if isinstance(key, slice):
            if key.step is not None and key.step != 1:
                return FixedSeq(self.items[key])
            start = _clamp(key.start, n, 0)
            stop = _clamp(key.stop, n, n)
            if stop < start:
                stop = start
            if _concrete(start) and _concrete(stop):
                return FixedSeq(self.items[start:stop])
            return FixedView(self, start, stop)
        if key < 0:
            key = key + n
        if key < 0 or key >= n:
            raise IndexError("index out of range")
        if _concrete(key) or type(key) is int:
            return self.items[key]
        return _select(self.items, key)


class FixedView(_Concat, collections.abc.Sequence):
    """seq[start:stop] with 0 <= start <= stop <= len(seq), bounds possibly symbolic"""

    def __init__(self, seq, start, stop):
        self.seq, self.start, self.stop = seq, start, stop

    def __len__(self):
        return self.stop - self.start

    def __iter__(self):
        i = self.start
        while i < self.stop:
            yield self.seq[i]
            i = i + 1

    def __getitem__(self, key):
        n = self.stop - self.start
        if isinstance(key, slice):
            if key.step is not None and key.step != 1:
                return FixedSeq(list(self)[key])
            a = _clamp(key.start, n, 0)
            b = _clamp(key.stop, n, n)
            if b < a:
                b = a
            return FixedView(self.seq, self.start + a, self.start + b)
        if key < 0:
            key = key + n
        if key < 0 or key >= n:
            raise IndexError("index out of range")
        return self.seq[self.start + key]


def _just_items(inner, width, fillbyte, left):
    """the items of inner.ljust(width, fillbyte) / rjust, or None when inner is already that long"""
    if len(inner) >= width:
        return None
    fill = fillbyte[0]
    out = [b for b in inner]
    pad = [fill] * (width - len(out))
    return out + pad if left else pad + out


def _just(self, width, fillbyte, left):
    """bytes.ljust / rjust on a symbolic string: CrossHair's fallback realises the whole string outside the tracer"""
    items = _just_items(self.inner, width, fillbyte, left)
    return self if items is None else SymbolicBytes(FixedSeq(items))


SymbolicBytes.ljust = lambda self, width, fillbyte=b" ": _just(self, width, fillbyte, True)
SymbolicBytes.rjust = lambda self, width, fillbyte=b" ": _just(self, width, fillbyte, False)


def fix(raw, length):
    """re-wrap CrossHair's symbolic bytes argument (already constrained to len == length)"""
    with NoTracing():
        symbolic = isinstance(raw, SymbolicBytes)
    if not symbolic:
        return raw
    items = [raw[i] for i in range(length)]
    with NoTracing():
        # every input byte is an 8-bit slice of itself: integers assembled from bytes with * and + (or << and |)
        # keep a structured representation (vlib/bitrep.py)
        from vlib.bitrep import BitRep
        for it in items:
            if isinstance(it, SymbolicInt):
                try:
                    setattr(it, "_verif_bitrep", BitRep([(0, 8, it.var, 8, 0)], None))
                except Exception:
                    pass
        return SymbolicBytes(FixedSeq(items))


def validate(seed=0, rounds=300):
    """slice / index semantics of FixedSeq and FixedView against bytes, on concrete values"""
    import random
    global _FORCE_VIEW
    rnd = random.Random(seed)
    n = 0
    for force in (False, True):
        _FORCE_VIEW = force
        try:
            for _ in range(rounds):
                data = bytes(rnd.randrange(256) for _ in range(rnd.randrange(0, 9)))
                cur_ref, cur = data, FixedSeq(list(data))
                for _depth in range(rnd.randrange(1, 4)):
                    a = rnd.choice([None] + list(range(-11, 12)))
                    b = rnd.choice([None] + list(range(-11, 12)))
                    cur_ref, cur = cur_ref[a:b], cur[a:b]
                    assert len(cur) == len(cur_ref), (data, a, b)
                    assert bytes(list(cur)) == cur_ref, (data, a, b)
                    for i in range(-len(cur_ref) - 2, len(cur_ref) + 2):
                        try:
                            want = cur_ref[i]
                        except IndexError:
                            want = None
                        try:
                            got = cur[i]
                        except IndexError:
                            got = None
                        assert got == want, (data, a, b, i)
                    n += 1
                    # ljust / rjust
                    w = rnd.randrange(0, 10)
                    for left in (True, False):
                        items = _just_items(cur, w, b"\x00", left)
                        want = cur_ref.ljust(w, b"\x00") if left else cur_ref.rjust(w, b"\x00")
                        got = cur_ref if items is None else bytes(items)
                        assert got == want, (data, a, b, w, left)
        finally:
            _FORCE_VIEW = False
    return n
