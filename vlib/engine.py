"""Path-exhaustive symbolic exploration of a harness function with CrossHair + z3.

A *harness* is a plain Python function with annotated parameters.  The engine creates
symbolic proxies (z3-backed) for every parameter, runs the harness - and through it the
real bisturi code - once per feasible path, and interprets what the harness returns:

    "ok:<tag>"      the assertion held on this path; <tag> is a reachability tag
    anything else   the assertion failed on this path (the text says how)

`assume(cond)` inside a harness prunes the path (it is the bound / precondition).
An uncaught Exception inside the harness is a failure as well.

Verdicts
    discharged    every feasible path was explored (search tree exhausted), each returned
                  "ok:", none was left unknown, and all required tags were seen
    refuted       a path failed; the solver's model for the inputs is returned
    inconclusive  timeout / unknown satisfiability / unsupported operation / missing tag

This module only runs under the tooling interpreter (python3-vt); replay uses `concrete.py`.
"""
import inspect
import sys
import time
import traceback
from time import process_time

import crosshair.core_and_libs  # noqa: F401  (must come first: fills the patch tables)
import z3
from crosshair import core as chcore
from crosshair.condition_parser import condition_parser
from crosshair.copyext import CopyMode, deepcopyext
from crosshair.core import (ExceptionFilter, Patched, deep_realize, gen_args,
                            realize)
from crosshair.options import DEFAULT_OPTIONS
from crosshair.statespace import (CallAnalysis, RootNode, StateSpace,
                                  StateSpaceContext, VerificationStatus,
                                  context_statespace)
from crosshair.tracers import COMPOSITE_TRACER, NoTracing, ResumedTracing
from crosshair.util import (CrossHairInternal, IgnoreAttempt, NotDeterministic,
                            UnexploredPath)

SOLVER = {"checks": 0, "seconds": 0.0, "unknown": 0}

_orig_check = z3.Solver.check


def _counted_check(self, *a, **kw):
    t0 = time.perf_counter()
    try:
        r = _orig_check(self, *a, **kw)
    finally:
        SOLVER["checks"] += 1
        SOLVER["seconds"] += time.perf_counter() - t0
    if r == z3.unknown:
        SOLVER["unknown"] += 1
    return r


z3.Solver.check = _counted_check


class Result:
    def __init__(self):
        self.status = "inconclusive"
        self.reason = ""
        self.paths = 0
        self.ok_paths = 0
        self.unknown_paths = 0
        self.fail_paths = 0
        self.ignored_paths = 0
        self.tags = {}
        self.failures = []  # [(failure text, {arg name: python value})], one per distinct signature
        self.exhausted = False
        self.cpu_s = 0.0
        self.solver_checks = 0
        self.solver_s = 0.0
        self.unknown_reasons = {}

    def as_dict(self):
        return dict(self.__dict__)


def _proxy_scan(text):
    return any(s in text for s in ("SymbolicInt", "SymbolicBytes", "SymbolicStr", "LazyIntSymbolicStr",
                                   "SymbolicArrayBasedUniformTuple", "SymbolicBool", "SymbolicByteArray",
                                   "BytesLike", "ShellMutable"))


def _sig(text):
    import re
    m = re.search(r"sig=(\S+)", text)
    return m.group(1) if m else text.splitlines()[0][:160]


def explore(fn, timeout_s=120.0, per_path_timeout=40.0, required_tags=(), stop_on_fail=True,
            max_paths=10 ** 9, max_fail_sigs=8, max_unknown=3):
    """Explore every feasible path of `fn` over symbolic arguments."""
    sig = inspect.signature(fn, eval_str=True) if sys.version_info >= (3, 10) else inspect.signature(fn)
    res = Result()
    search_root = RootNode()
    start = process_time()
    c0, s0 = SOLVER["checks"], SOLVER["seconds"]
    exhausted = False
    seen_sigs = set()
    stop = False
    for i in range(1, max_paths + 1):
        itr_start = process_time()
        if itr_start > start + timeout_s:
            res.reason = "timeout after %d paths" % res.paths
            break
        res.paths += 1
        space = StateSpace(
            execution_deadline=itr_start + per_path_timeout,
            model_check_timeout=per_path_timeout / 2,
            search_root=search_root,
        )
        status = None
        fail = None
        with condition_parser(DEFAULT_OPTIONS.analysis_kind), Patched(), COMPOSITE_TRACER, NoTracing(), \
                StateSpaceContext(space):
            try:
                pre_args = gen_args(sig)
                args = deepcopyext(pre_args, CopyMode.REGULAR, {})
                ret = None
                with ExceptionFilter() as efilter, ResumedTracing():
                    ret = fn(*args.args, **args.kwargs)
                if efilter.ignore:
                    status = None
                    res.ignored_paths += 1
                elif efilter.user_exc is not None:
                    exc, tb = efilter.user_exc
                    if isinstance(exc, NotDeterministic):
                        raise exc
                    text = "EXC %s: %s" % (type(exc).__name__, exc)
                    if _proxy_scan(text):
                        raise UnexploredPath("proxy type leaked into exception text: " + text[:200])
                    with ResumedTracing():
                        space.detach_path(exc)
                    cex = deep_realize(dict(pre_args.arguments))
                    fail = [text + "\n" + "".join(tb.format()[-6:]), cex]
                    status = VerificationStatus.REFUTED
                else:
                    with ResumedTracing():
                        ret = deep_realize(ret)
                    if isinstance(ret, str) and ret.startswith("ok:"):
                        status = VerificationStatus.CONFIRMED
                        res.ok_paths += 1
                        res.tags[ret[3:]] = res.tags.get(ret[3:], 0) + 1
                    else:
                        if _sig(repr(ret)) in seen_sigs:
                            fail = [repr(ret), None]   # same signature as an earlier path: no need for a second model
                        else:
                            with ResumedTracing():
                                space.detach_path()
                            cex = deep_realize(dict(pre_args.arguments))
                            fail = [repr(ret), cex]
                        status = VerificationStatus.REFUTED
            except IgnoreAttempt:
                status = None
                res.ignored_paths += 1
            except UnexploredPath as e:
                status = VerificationStatus.UNKNOWN
                res.unknown_paths += 1
                k = type(e).__name__ + ": " + str(e)[:160]
                res.unknown_reasons[k] = res.unknown_reasons.get(k, 0) + 1
            _analysis, exhausted = space.bubble_status(CallAnalysis(status))
        if fail is not None:
            sg = _sig(fail[0])
            res.fail_paths += 1
            if sg not in seen_sigs and fail[1] is not None:
                seen_sigs.add(sg)
                res.failures.append(fail)
            if stop_on_fail or len(seen_sigs) >= max_fail_sigs:
                break
        if exhausted:
            break
        if res.unknown_paths > max_unknown:
            res.reason = "gave up after %d unknown path(s): %s" % (res.unknown_paths, res.unknown_reasons)
            break
    res.cpu_s = process_time() - start
    res.solver_checks = SOLVER["checks"] - c0
    res.solver_s = SOLVER["seconds"] - s0
    res.exhausted = exhausted
    if res.failures:
        res.status = "refuted"
    elif exhausted and res.unknown_paths == 0:
        missing = [t for t in required_tags if t not in res.tags]
        if missing:
            res.status = "inconclusive"
            res.reason = "vacuity guard: no feasible path reached tag(s) %s (seen: %s)" % (missing, sorted(res.tags))
        elif res.ok_paths == 0:
            res.status = "inconclusive"
            res.reason = "vacuity guard: no path completed"
        else:
            res.status = "discharged"
    else:
        res.status = "inconclusive"
        if not res.reason:
            res.reason = "%d path(s) left unknown: %s" % (res.unknown_paths, res.unknown_reasons)
    return res
