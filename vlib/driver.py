"""Obligation runner: builds a property's obligations from /repo's current tree, decides each
with the engine (one forked process per obligation, all cores), replays refutations on the
repository's own interpreter, matches known findings, writes evidence, sets the exit code.

Exit protocol:  0 all obligations discharged (known findings printed)
                1 reproduced, unlisted refutation  (VIOLATION property=<id> replay=<path>)
                2 inconclusive / harness error (nothing is claimed)
"""
import argparse
import ast
import importlib
import json
import multiprocessing as mp
import os
import shutil
import subprocess
import sys
import tempfile
import time
import traceback

VERIF = os.path.dirname(os.path.dirname(os.path.abspath(__file__)))
REPO = os.environ.get("VERIF_REPO", "/repo")
REPLAY_PY = os.environ.get("VERIF_REPLAY_PYTHON", "/venv/bin/python")
MAX_REPLAYED_VIOLATIONS = int(os.environ.get("VERIF_MAX_VIOLATIONS", "6"))


# ----------------------------------------------------------------------------------------
# worker side
# ----------------------------------------------------------------------------------------
def _encode_args(d):
    return {k: (v if k == "__fn__" else repr(v)) for k, v in d.items()}


def _profile_collector(store, roots):
    """names of the bisturi functions (and generated __pkts__ functions) entered while exploring"""
    repo_root, scratch = roots

    def prof(frame, event, arg):
        if event == "call":
            co = frame.f_code
            fn = co.co_filename
            name = getattr(co, "co_qualname", co.co_name)
            if fn.startswith(repo_root):
                store.add(os.path.relpath(fn, repo_root) + ":" + name)
            elif fn.startswith(scratch) and (os.sep + "__pkts__" + os.sep) in fn:
                store.add("__pkts__(generated):" + name)
    return prof


def _worker(ob, conn):
    t0 = time.time()
    out = {"id": ob["id"], "status": "inconclusive", "reason": "worker crashed"}
    scratch = tempfile.mkdtemp(prefix="vf_")
    try:
        sys.path.insert(0, scratch)
        os.chdir(scratch)
        with open(os.path.join(scratch, ob["module"] + ".py"), "w") as f:
            f.write(ob["source"])
        for extra_name, extra_src in ob.get("extra_files", {}).items():
            p = os.path.join(scratch, extra_name)
            os.makedirs(os.path.dirname(p), exist_ok=True)
            with open(p, "w") as f:
                f.write(extra_src)
        from vlib import engine, plugin
        plugin.install()
        mod = importlib.import_module(ob["module"])
        fn_names = ob["fn"] if isinstance(ob["fn"], list) else [ob["fn"]]
        encoded = set()
        roots = [os.path.join(REPO, "bisturi") + os.sep, scratch + os.sep]
        sys.setprofile(_profile_collector(encoded, roots))
        agg = None
        budget = ob.get("timeout", 120)
        try:
            for fname in fn_names:
                if budget <= 0 and agg is not None:
                    if agg["status"] == "discharged":
                        agg["status"] = "inconclusive"
                    agg["reason"] = (agg["reason"] + "; " if agg["reason"] else "") + "obligation budget exhausted before " + fname
                    break
                fn = getattr(mod, fname) if hasattr(mod, fname) else mod.HARNESSES[fname]
                res = engine.explore(fn, timeout_s=max(2.0, budget), required_tags=(),
                                     per_path_timeout=ob.get("per_path_timeout", 40.0),
                                     stop_on_fail=not ob.get("collect_all", False),
                                     max_fail_sigs=ob.get("max_fail_sigs", 8))
                budget -= res.cpu_s
                d = res.as_dict()
                for f in d["failures"]:
                    f[1]["__fn__"] = fname
                if agg is None:
                    agg = d
                    agg["sub"] = 1
                else:
                    agg["sub"] += 1
                    for k in ("paths", "ok_paths", "unknown_paths", "ignored_paths", "fail_paths", "cpu_s", "solver_checks", "solver_s"):
                        agg[k] += d[k]
                    for t, c in d["tags"].items():
                        agg["tags"][t] = agg["tags"].get(t, 0) + c
                    agg["failures"] += d["failures"]
                    agg["exhausted"] = agg["exhausted"] and d["exhausted"]
                    rank = {"discharged": 0, "inconclusive": 1, "refuted": 2}
                    if rank[d["status"]] > rank[agg["status"]]:
                        agg["status"] = d["status"]
                    if d["reason"]:
                        agg["reason"] = (agg["reason"] + "; " if agg["reason"] else "") + fname + ": " + d["reason"]
                if d["status"] == "refuted" and not ob.get("collect_all", False):
                    break
        finally:
            sys.setprofile(None)
        out = agg
        if out["status"] == "discharged":
            missing = [t for t in ob.get("required_tags", ()) if t not in out["tags"]]
            if missing:
                out["status"] = "inconclusive"
                out["reason"] = "vacuity guard: no feasible path reached tag(s) %s (seen: %s)" % (missing, sorted(out["tags"]))
        out["id"] = ob["id"]
        out["functions_encoded"] = sorted(encoded)
        out["failures"] = [(txt, _encode_args(cex)) for txt, cex in out.pop("failures")]
        out["plugin_stats"] = dict(plugin.STATS)
    except BaseException as e:  # noqa
        out = {"id": ob["id"], "status": "inconclusive", "reason": "harness error: %s: %s" % (type(e).__name__, e),
               "trace": traceback.format_exc()[-3000:], "failures": []}
    finally:
        out["wall_s"] = time.time() - t0
        try:
            conn.send(out)
            conn.close()
        except Exception:
            pass
        os.chdir("/")
        shutil.rmtree(scratch, ignore_errors=True)
        os._exit(0)


# ----------------------------------------------------------------------------------------
# scheduler
# ----------------------------------------------------------------------------------------
def run_obligations(obs, jobs, progress=True):
    ctx = mp.get_context("fork")
    pending = list(obs)
    # long obligations first
    pending.sort(key=lambda o: -o.get("timeout", 120))
    running = {}
    results = {}
    n_total = len(pending)
    last_print = 0
    while pending or running:
        while pending and len(running) < jobs:
            ob = pending.pop(0)
            parent, child = ctx.Pipe(duplex=False)
            p = ctx.Process(target=_worker, args=(ob, child))
            p.start()
            child.close()
            running[ob["id"]] = (p, parent, time.time(), ob)
        time.sleep(0.02)
        for oid in list(running):
            p, conn, t0, ob = running[oid]
            got = None
            if conn.poll():
                try:
                    got = conn.recv()
                except EOFError:
                    got = {"id": oid, "status": "inconclusive", "reason": "worker died without result", "failures": []}
            elif not p.is_alive():
                got = {"id": oid, "status": "inconclusive", "reason": "worker exited (code %s) without result" % p.exitcode,
                       "failures": []}
            elif time.time() - t0 > ob.get("timeout", 120) * 2.0 + 60:
                p.kill()
                got = {"id": oid, "status": "inconclusive", "reason": "wall-clock limit", "failures": []}
            if got is not None:
                p.join(timeout=5)
                if p.is_alive():
                    p.kill()
                conn.close()
                del running[oid]
                results[oid] = got
        if progress and time.time() - last_print > 15:
            last_print = time.time()
            print("  .. %d/%d obligations done, %d running" % (len(results), n_total, len(running)), flush=True)
    return [results[o["id"]] for o in obs]


# ----------------------------------------------------------------------------------------
# replay
# ----------------------------------------------------------------------------------------
def write_replay(prop, ob, args_repr, failure, n):
    d = os.path.join(VERIF, "replays", prop)
    os.makedirs(d, exist_ok=True)
    path = os.path.join(d, "%03d.json" % n)
    rec = {
        "property": prop, "obligation": ob["id"], "module": ob["module"], "source": ob["source"],
        "extra_files": ob.get("extra_files", {}),
        "fn": args_repr.pop("__fn__", ob["fn"] if isinstance(ob["fn"], str) else ob["fn"][0]), "args": args_repr,
        "symbolic_failure": failure, "bound": ob.get("bound", ""),
        "cmd": "%s %s/vlib/replay.py %s" % (REPLAY_PY, VERIF, path),
    }
    with open(path, "w") as f:
        json.dump(rec, f, indent=1)
    return path


def run_replay(path):
    """-> (reproduced: bool|None, outcome text)"""
    env = dict(os.environ)
    env["PYTHONPATH"] = REPO + os.pathsep + VERIF
    env.pop("PYTHONHOME", None)
    try:
        p = subprocess.run([REPLAY_PY, os.path.join(VERIF, "vlib", "replay.py"), path, "--json"],
                           capture_output=True, text=True, timeout=600, env=env, cwd="/")
    except subprocess.TimeoutExpired:
        return None, "replay timeout"
    last = p.stdout.strip().splitlines()[-1] if p.stdout.strip() else ""
    try:
        j = json.loads(last)
        return j["reproduced"], j["outcome"]
    except Exception:
        return None, "replay harness error: rc=%s out=%r err=%r" % (p.returncode, p.stdout[-500:], p.stderr[-800:])


def signature_of(outcome):
    """Harness failure texts carry `sig=<token>`; without one the whole first line is the signature."""
    if not outcome:
        return ""
    import re
    m = re.search(r"sig=(\S+)", outcome)
    if m:
        return m.group(1)
    return outcome.splitlines()[0][:160]


def load_known():
    path = os.path.join(VERIF, "known_findings.json")
    if not os.path.exists(path):
        return []
    with open(path) as f:
        return json.load(f)["findings"]


# ----------------------------------------------------------------------------------------
def main(argv=None):
    ap = argparse.ArgumentParser()
    ap.add_argument("prop")
    ap.add_argument("--tier", default=os.environ.get("VERIF_TIER", "quick"), choices=["quick", "thorough"])
    ap.add_argument("--jobs", type=int, default=int(os.environ.get("VERIF_JOBS", str(min(16, os.cpu_count() or 4)))))
    ap.add_argument("--only", default=None, help="substring filter on obligation ids (debugging; evidence marks it)")
    ap.add_argument("--list", action="store_true")
    ap.add_argument("--no-evidence", action="store_true")
    ap.add_argument("--verbose", "-v", action="store_true")
    args = ap.parse_args(argv)
    prop = args.prop
    seed = int(os.environ.get("VERIF_SEED", "0") or 0)
    t_start = time.time()

    # the tooling venv imports the working tree directly
    for p in (VERIF, REPO):
        if p not in sys.path:
            sys.path.insert(0, p)
    os.environ.setdefault("BISTURI_VERIF", "1")

    from vlib import plugin
    import crosshair.core_and_libs  # noqa
    plugin.install()
    try:
        selfval = plugin.self_validate(seed)
    except AssertionError as e:
        print("INCONCLUSIVE property=%s reason=plug-in self-validation failed: %s" % (prop, e))
        return 2

    pm = importlib.import_module("props." + prop)
    built = pm.build(args.tier, seed)
    obs = built["obligations"]
    for o in obs:
        o.setdefault("timeout", 120 if args.tier == "quick" else 1500)
    if args.only:
        obs = [o for o in obs if args.only in o["id"]]
    if args.list:
        for o in obs:
            print(o["id"], "|", o.get("bound", ""))
        print(len(obs), "obligations")
        return 0
    ids = [o["id"] for o in obs]
    assert len(ids) == len(set(ids)), "duplicate obligation ids"
    print("property %s tier %s: %d obligations, %d jobs" % (prop, args.tier, len(obs), args.jobs), flush=True)

    # fresh replay dir for this property
    shutil.rmtree(os.path.join(VERIF, "replays", prop), ignore_errors=True)

    results = run_obligations(obs, args.jobs)

    known = [k for k in load_known() if k["property"] == prop]
    known_sigs = {k["signature"]: k for k in known if k.get("status", "known") == "known"}
    violations, known_hits, inconclusive = [], {}, []
    n_replays = 0
    replay_no = 0
    not_replayed = 0
    known_only_obs = set()
    samples = []
    for ob, r in zip(obs, results):
        st = r.get("status")
        if args.verbose or st != "discharged":
            print("  [%s] %s paths=%s cpu=%.1fs %s" % (st, ob["id"], r.get("paths"), r.get("cpu_s", 0), r.get("reason", "")),
                  flush=True)
            if r.get("trace"):
                print(r["trace"])
        ob_viol = 0
        ob_known = 0
        for failure, args_repr in r.get("failures", []):
            if len(violations) >= MAX_REPLAYED_VIOLATIONS:
                not_replayed += 1
                continue
            replay_no += 1
            path = write_replay(prop, ob, args_repr, failure, replay_no)
            reproduced, outcome = run_replay(path)
            n_replays += 1
            rec = json.load(open(path))
            rec["replay_outcome"] = outcome
            rec["reproduced"] = reproduced
            sig = signature_of(outcome if reproduced else failure)
            rec["signature"] = sig
            json.dump(rec, open(path, "w"), indent=1)
            if reproduced:
                if sig in known_sigs:
                    known_hits.setdefault(sig, path)
                    ob_known += 1
                else:
                    violations.append((ob["id"], sig, path, outcome))
                    ob_viol += 1
            else:
                inconclusive.append((ob["id"], "counterexample did not reproduce on %s: symbolic=%r replay=%r"
                                     % (REPLAY_PY, failure[:200], (outcome or "")[:300])))
        if ob_known and not ob_viol:
            known_only_obs.add(ob["id"])
        if st == "inconclusive":
            inconclusive.append((ob["id"], r.get("reason", "")))
        if st == "refuted" and not r.get("failures"):
            inconclusive.append((ob["id"], "refuted without counterexample"))

    discharged = sum(1 for r in results if r.get("status") == "discharged")
    # a refuted obligation whose exploration stopped at its first counterexample may hide a second, different
    # violation behind a known finding: obligations that tolerate known findings run with collect_all and must
    # have finished their exploration
    for ob, r in zip(obs, results):
        if r.get("status") == "refuted" and ob["id"] in known_only_obs:
            if not (r.get("exhausted") and r.get("unknown_paths", 0) == 0):
                inconclusive.append((ob["id"], "exploration did not finish behind known finding(s): " + str(r.get("reason", ""))))

    for sig, path in sorted(known_hits.items()):
        print("KNOWN-FINDING: property=%s %s (%s) replay=%s" % (prop, sig, known_sigs[sig]["description"], path))
    for oid, sig, path, outcome in violations:
        print("VIOLATION property=%s replay=%s" % (prop, path))
        print("    obligation=%s signature=%s" % (oid, sig))
        print("    " + (outcome or "").replace("\n", "\n    ")[:1200])
    if not_replayed:
        print("note: %d further refutation(s) were not replayed (cap of %d reported violations reached)"
              % (not_replayed, MAX_REPLAYED_VIOLATIONS))
    for oid, why in inconclusive:
        print("INCONCLUSIVE property=%s obligation=%s reason=%s" % (prop, oid, why))

    wall = time.time() - t_start
    slow = sorted(zip(obs, results), key=lambda x: -(x[1].get("wall_s") or 0))[:5]
    print("slowest: " + ", ".join("%s %.0fs/%sp" % (o["id"], r.get("wall_s") or 0, r.get("paths")) for o, r in slow))
    if not args.no_evidence:
        write_evidence(prop, args, seed, built, obs, results, discharged, violations, known_hits, inconclusive,
                       n_replays, selfval, wall, pm)
    if violations:
        rc = 1
    elif inconclusive:
        rc = 2
    else:
        rc = 0
    print("property %s: %d obligations, %d discharged, %d violation(s), %d known finding(s), %d inconclusive, %.1fs -> exit %d"
          % (prop, len(obs), discharged, len(violations), len(known_hits), len(inconclusive), wall, rc))
    return rc


def write_evidence(prop, args, seed, built, obs, results, discharged, violations, known_hits, inconclusive,
                   n_replays, selfval, wall, pm):
    paths = sum(r.get("paths", 0) or 0 for r in results)
    checks = sum(r.get("solver_checks", 0) or 0 for r in results)
    solver_s = sum(r.get("solver_s", 0.0) or 0.0 for r in results)
    cpu_s = sum(r.get("cpu_s", 0.0) or 0.0 for r in results)
    funcs = sorted(set(f for r in results for f in r.get("functions_encoded", [])))
    nontrivial = sum(1 for ob, r in zip(obs, results) if ob.get("symbolic", True) and (r.get("paths") or 0) >= 1
                     and r.get("status") in ("discharged", "refuted"))
    samples = []
    step = max(1, len(obs) // 6)
    for ob, r in list(zip(obs, results))[::step][:8]:
        samples.append({
            "obligation": ob["id"], "harness": ob["fn"], "bound": ob.get("bound", ""),
            "assertion": ob.get("assertion", ""), "status": r.get("status"), "paths": r.get("paths"),
            "reachability_tags": r.get("tags"), "solver_checks": r.get("solver_checks"),
            "declaration": ob.get("decl_text", "")[:1500],
        })
    ev = {
        "property_id": prop,
        "tier": args.tier,
        "seed": seed,
        "level": "model_checking",
        "wall_s": round(wall, 2),
        "violations": len(violations),
        "coverage": {
            "states": max(paths, 1) if obs else 0,
            "transitions": max(checks, 1) if obs else 0,
            "traces_validated_against_impl": n_replays,
            "samples": samples,
            "obligations": len(obs),
            "discharged": discharged,
            "refuted_known": len(known_hits),
            "refuted_new": len(violations),
            "inconclusive": len(inconclusive),
            "evaluations": len(obs),
            "distinct_nontrivial": nontrivial,
            "rule": "one evaluation = one obligation (harness over the real bisturi objects, symbolic inputs, stated "
                    "bound) decided by path-exhaustive symbolic execution with z3; non-trivial = has at least one "
                    "symbolic input and the exploration finished (discharged or refuted); obligation ids are unique",
            "states_meaning": "feasible execution paths explored (each closed by z3 for all values reaching it)",
            "transitions_meaning": "z3 solver.check() calls",
            "solver_seconds": round(solver_s, 2),
            "engine_cpu_seconds": round(cpu_s, 2),
            "functions_encoded": funcs,
            "bounds": built.get("bounds", {}),
            "outside_claim": built.get("outside", []),
            "engine": "CrossHair 0.0.110 path exploration + z3 %s, plug-in models (struct, bit-ops, message stub)" % _z3v(),
            "plugin_self_validation": selfval,
            "known_findings_reported": sorted(known_hits),
            "filter": args.only,
            "exhaustive": False,
        },
        "assumptions": built.get("assumptions", []) + [
            "z3 and CrossHair's proxy semantics for int/bytes/list are sound",
            "plug-in models of struct / bitwise operators are exact (self-validated against CPython and as z3 lemmas on every run)",
            "results hold within the stated bounds only (catalogue of declarations, input lengths, value ranges)",
        ],
    }
    os.makedirs(os.path.join(VERIF, "evidence"), exist_ok=True)
    with open(os.path.join(VERIF, "evidence", prop + ".json"), "w") as f:
        json.dump(ev, f, indent=1, default=str)


def _z3v():
    try:
        import z3
        return z3.get_version_string()
    except Exception:
        return "?"


if __name__ == "__main__":
    sys.exit(main())
