"""Concrete replay of a solver counterexample on the unmodified code.

Usage:  /venv/bin/python vlib/replay.py <replay.json> [--json]

Runs under the repository's own interpreter with no CrossHair and no plug-in: the harness
module recorded in the replay file is written to a scratch directory, imported with /repo
first on the path, and the harness function is called with the solver's literal arguments.
Exit 1 (and "reproduced") when the harness reports a failure, 0 when the run passes.
"""
import ast
import importlib
import json
import os
import shutil
import sys
import tempfile
import traceback


def main():
    path = sys.argv[1]
    as_json = "--json" in sys.argv
    rec = json.load(open(path))
    here = os.path.dirname(os.path.dirname(os.path.abspath(__file__)))
    repo = os.environ.get("VERIF_REPO", "/repo")
    scratch = tempfile.mkdtemp(prefix="vf_replay_")
    reproduced, outcome = None, ""
    try:
        for p in (here, repo, scratch):
            if p in sys.path:
                sys.path.remove(p)
        sys.path[:0] = [scratch, repo, here]
        os.chdir(scratch)
        with open(os.path.join(scratch, rec["module"] + ".py"), "w") as f:
            f.write(rec["source"])
        for name, src in rec.get("extra_files", {}).items():
            p = os.path.join(scratch, name)
            os.makedirs(os.path.dirname(p), exist_ok=True)
            with open(p, "w") as f:
                f.write(src)
        mod = importlib.import_module(rec["module"])
        fn = getattr(mod, rec["fn"]) if hasattr(mod, rec["fn"]) else mod.HARNESSES[rec["fn"]]
        args = {k: ast.literal_eval(v) for k, v in rec["args"].items()}
        from vlib.hx import AssumeFailed
        try:
            ret = fn(**args)
            if isinstance(ret, str) and ret.startswith("ok:"):
                reproduced, outcome = False, ret
            else:
                reproduced, outcome = True, str(ret)
        except AssumeFailed:
            reproduced, outcome = False, "arguments fall outside the obligation's bound (assume failed)"
        except Exception as e:
            reproduced = True
            outcome = "EXC %s: %s\n%s" % (type(e).__name__, e, traceback.format_exc()[-1500:])
    except Exception as e:
        reproduced, outcome = None, "replay harness error: %s\n%s" % (e, traceback.format_exc()[-1500:])
    finally:
        os.chdir("/")
        shutil.rmtree(scratch, ignore_errors=True)
    if as_json:
        print(json.dumps({"reproduced": reproduced, "outcome": outcome}))
    else:
        print("obligation:", rec["obligation"])
        print("arguments :", rec["args"])
        print("reproduced:", reproduced)
        print(outcome)
    sys.exit(1 if reproduced else (0 if reproduced is False else 2))


if __name__ == "__main__":
    main()
