"""Bit-slice representation of (symbolic) Python integers.

    value == sum_j t_j * 2**s_j  +  T * 2**s_top          (two's complement, unbounded)

with  0 <= t_j < 2**w_j,  slices sorted, pairwise disjoint and below s_top;  T an arbitrary
integer term (or absent = 0).  Every integer x has the trivial representation ([], top = x at 0).

Each slice remembers where it comes from:  t_j = bits [lo, lo+w_j) of a *base* term (a byte of
the input, a field value, ...), and the top is bits [k, oo) of its base.  Masks, shifts and the
merge of disjoint values therefore only re-index slices, and pieces of the same base that end
up adjacent again are recombined, so  ((x & m) | (x & ~m))  is represented as x itself and a
value cut into bit fields and reassembled is *syntactically* the original value.

All operations are exact identities over the integers (z3 Int `/` and `%` with a positive
constant divisor are floor division and non-negative remainder, i.e. Python's // and %).
`validate()` checks the algebra against Python's own operators on concrete values.
"""
import z3


def _iv(c):
    return z3.IntVal(c)


def runs_of_ones(m):
    """m >= 0 -> [(shift, width)]"""
    runs = []
    i = 0
    while m >> i:
        if (m >> i) & 1:
            j = i
            while (m >> j) & 1:
                j += 1
            runs.append((i, j - i))
            i = j
        else:
            i += 1
    return runs


def _bits(base, bw, lo, w):
    """term for bits [lo, lo+w) of `base`; base in [0, 2**bw) when bw is not None, else any integer"""
    t = base
    if lo:
        t = t / _iv(1 << lo)
    if bw is None or lo + w != bw:
        t = t % _iv(1 << w)
    return t


def _same(a, b):
    return a is b or z3.eq(a, b)


class BitRep:
    __slots__ = ("slices", "top")

    def __init__(self, slices, top):
        self.slices = slices      # [(shift, width, base, base_width|None, lo)]
        self.top = top            # None | (base, k, shift): bits [k, oo) of base, placed at `shift`
        self._normalise()

    def _normalise(self):
        sl = sorted(self.slices, key=lambda x: x[0])
        out = []
        for cur in sl:
            if out:
                s0, w0, b0, bw0, lo0 = out[-1]
                s1, w1, b1, bw1, lo1 = cur
                if s1 == s0 + w0 and lo1 == lo0 + w0 and bw0 == bw1 and _same(b0, b1):
                    out[-1] = (s0, w0 + w1, b0, bw0, lo0)
                    continue
            out.append(cur)
        top = self.top
        while out and top is not None:
            s0, w0, b0, bw0, lo0 = out[-1]
            tb, k, st = top
            if bw0 is None and s0 + w0 == st and lo0 + w0 == k and _same(b0, tb):
                top = (tb, lo0, s0)
                out.pop()
            else:
                break
        self.slices = out
        self.top = top

    # ---- constructors -------------------------------------------------------------
    @staticmethod
    def of_term(term):
        return BitRep([], (term, 0, 0))

    @staticmethod
    def of_const(c):
        if c >= 0:
            return BitRep([(s, w, _iv((c >> s) & ((1 << w) - 1)), w, 0) for s, w in runs_of_ones(c)], None)
        b = (~c).bit_length()
        low = c & ((1 << b) - 1)
        return BitRep([(s, w, _iv((low >> s) & ((1 << w) - 1)), w, 0) for s, w in runs_of_ones(low)],
                      (_iv(c >> b), 0, b))

    @staticmethod
    def of_bytes_lsf(terms):
        return BitRep([(8 * i, 8, t, 8, 0) for i, t in enumerate(terms)], None)

    # ---- queries --------------------------------------------------------------------
    def term(self):
        total = None
        for s, w, base, bw, lo in self.slices:
            t = _bits(base, bw, lo, w)
            piece = t if s == 0 else t * _iv(1 << s)
            total = piece if total is None else total + piece
        if self.top is not None:
            base, k, st = self.top
            t = base if k == 0 else base / _iv(1 << k)
            piece = t if st == 0 else t * _iv(1 << st)
            total = piece if total is None else total + piece
        return _iv(0) if total is None else total

    def is_trivial(self):
        return not self.slices and self.top is not None and self.top[1] == 0 and self.top[2] == 0

    def is_zero(self):
        return not self.slices and self.top is None

    def finite_below(self, nbits):
        """True when the value is known to satisfy 0 <= value < 2**nbits"""
        return self.top is None and all(s + w <= nbits for s, w, _, _, _ in self.slices)

    def extract(self, a, b):
        """slices making up bits [a, b) of the value, shifts relative to a"""
        out = []
        for s, w, base, bw, lo in self.slices:
            x, y = max(a, s), min(b, s + w)
            if x < y:
                out.append((x - a, y - x, base, bw, lo + (x - s)))
        if self.top is not None:
            base, k, st = self.top
            if b > st:
                x = max(a, st)
                out.append((x - a, b - x, base, None, k + (x - st)))
        return out

    def above(self, bnd):
        """representation of the part of the value at or above bit `bnd` (not shifted down)"""
        sl = []
        for s, w, base, bw, lo in self.slices:
            if s >= bnd:
                sl.append((s, w, base, bw, lo))
            elif s + w > bnd:
                sl.append((bnd, s + w - bnd, base, bw, lo + (bnd - s)))
        top = self.top
        if top is not None and top[2] < bnd:
            top = (top[0], top[1] + (bnd - top[2]), bnd)
        return BitRep(sl, top)

    # ---- operations -----------------------------------------------------------------
    def and_const(self, m):
        if m >= 0:
            sl = []
            for s, w in runs_of_ones(m):
                for rel, width, base, bw, lo in self.extract(s, s + w):
                    sl.append((s + rel, width, base, bw, lo))
            return BitRep(sl, None)
        cm = ~m
        b = cm.bit_length()
        low_keep = m & ((1 << b) - 1)
        sl = []
        for s, w in runs_of_ones(low_keep):
            for rel, width, base, bw, lo in self.extract(s, s + w):
                sl.append((s + rel, width, base, bw, lo))
        up = self.above(b)
        return BitRep(sl + up.slices, up.top)

    def shl(self, k):
        return BitRep([(s + k, w, base, bw, lo) for s, w, base, bw, lo in self.slices],
                      None if self.top is None else (self.top[0], self.top[1], self.top[2] + k))

    def shr(self, k):
        up = self.above(k)
        return BitRep([(s - k, w, base, bw, lo) for s, w, base, bw, lo in up.slices],
                      None if up.top is None else (up.top[0], up.top[1], up.top[2] - k))

    def disjoint(self, other):
        for s1, w1, _, _, _ in self.slices:
            for s2, w2, _, _, _ in other.slices:
                if s1 < s2 + w2 and s2 < s1 + w1:
                    return False
        if self.top is not None and other.top is not None:
            return False
        if self.top is not None and any(s + w > self.top[2] for s, w, _, _, _ in other.slices):
            return False
        if other.top is not None and any(s + w > other.top[2] for s, w, _, _, _ in self.slices):
            return False
        return True

    def merge(self, other):
        """value of (self | other) == (self ^ other) == (self + other) when disjoint"""
        return BitRep(self.slices + other.slices, self.top if self.top is not None else other.top)

    def bitwise(self, other, op):
        """exact a|b, a&b, a^b (op in 'or','and','xor') for two FINITE representations (no top): positions covered by one
        operand only are copied (or dropped for 'and'); overlapping positions are decided bit by bit with if-then-else
        terms.  Returns None when an operand is unbounded (the caller falls back to concretisation)."""
        if self.top is not None or other.top is not None:
            return None
        cuts = set()
        for s, w, _, _, _ in self.slices + other.slices:
            cuts.add(s)
            cuts.add(s + w)
        cuts = sorted(cuts)
        out = []
        for a, b in zip(cuts, cuts[1:]):
            pa, pb = self.extract(a, b), other.extract(a, b)
            if not pa and not pb:
                continue
            if not pa or not pb:
                if op == "and":
                    continue
                for rel, w, base, bw, lo in (pa or pb):
                    out.append((a + rel, w, base, bw, lo))
                continue
            for i in range(a, b):
                ba = self.extract(i, i + 1)
                bb = other.extract(i, i + 1)
                ta = _bits(ba[0][2], ba[0][3], ba[0][4], 1) if ba else _iv(0)
                tb = _bits(bb[0][2], bb[0][3], bb[0][4], 1) if bb else _iv(0)
                ssum = ta + tb
                if op == "or":
                    t = z3.If(ssum >= 1, _iv(1), _iv(0))
                elif op == "and":
                    t = z3.If(ssum == 2, _iv(1), _iv(0))
                else:
                    t = z3.If(ssum == 1, _iv(1), _iv(0))
                out.append((i, 1, t, 1, 0))
        return BitRep(out, None)

    def same_as(self, other):
        """syntactic equality of normalised representations (sufficient for value equality)"""
        if len(self.slices) != len(other.slices) or (self.top is None) != (other.top is None):
            return False
        for (s1, w1, b1, bw1, l1), (s2, w2, b2, bw2, l2) in zip(self.slices, other.slices):
            if (s1, w1, l1) != (s2, w2, l2) or not _same(b1, b2):
                return False
            if bw1 != bw2:
                return False
        if self.top is not None:
            if self.top[1:] != other.top[1:] or not _same(self.top[0], other.top[0]):
                return False
        return True


def validate(seed=0, rounds=400):
    """Compare the algebra with Python's operators on concrete values (terms are IntVals)."""
    import random
    rnd = random.Random(seed)

    def ev(rep):
        return z3.simplify(rep.term()).as_long()

    def check_inv(rep):
        for s, w, base, bw, lo in rep.slices:
            v = z3.simplify(_bits(base, bw, lo, w)).as_long()
            assert 0 <= v < (1 << w), ("slice range", s, w, v)
            if bw is not None:
                bv = z3.simplify(base).as_long()
                assert 0 <= bv < (1 << bw) and lo + w <= bw, "base range"
        rs = sorted((s, s + w) for s, w, _, _, _ in rep.slices)
        for (a1, b1), (a2, b2) in zip(rs, rs[1:]):
            assert b1 <= a2, "overlap"
        if rep.top is not None and rs:
            assert rs[-1][1] <= rep.top[2], "slice above top"

    n = 0
    recombined = 0
    for _ in range(rounds):
        x = rnd.choice([rnd.randrange(-(1 << 40), 1 << 40), rnd.randrange(-300, 300), rnd.randrange(1 << 70), 0, -1])
        rep = BitRep.of_term(_iv(x))
        cur = x
        if x >= 0 and rnd.random() < 0.4:
            nb = max(1, (x.bit_length() + 7) // 8)
            rep = BitRep.of_bytes_lsf([_iv((x >> (8 * i)) & 255) for i in range(nb)])
        # split / reassemble: (x & m) | (x & ~m) must give back the same representation
        m = ((1 << rnd.randrange(1, 20)) - 1) << rnd.randrange(0, 30)
        back = rep.and_const(m).merge(rep.and_const(~m))
        assert rep.and_const(m).disjoint(rep.and_const(~m))
        assert ev(back) == cur
        if back.same_as(rep):
            recombined += 1
        else:
            raise AssertionError("split/reassemble did not normalise: %r %r" % (x, m))
        for _step in range(rnd.randrange(1, 6)):
            op = rnd.choice(["and", "and", "shl", "shr", "merge", "const"])
            if op == "and":
                m = rnd.choice([rnd.randrange(-(1 << 24), 1 << 24), (1 << rnd.randrange(1, 40)) - 1,
                                ((1 << rnd.randrange(1, 12)) - 1) << rnd.randrange(0, 30),
                                ~(((1 << rnd.randrange(1, 12)) - 1) << rnd.randrange(0, 30))])
                rep, cur = rep.and_const(m), cur & m
            elif op == "shl":
                k = rnd.randrange(0, 20)
                rep, cur = rep.shl(k), cur << k
            elif op == "shr":
                k = rnd.randrange(0, 20)
                rep, cur = rep.shr(k), cur >> k
            elif op == "merge":
                y = rnd.randrange(-(1 << 30), 1 << 30)
                other = BitRep.of_const(y)
                assert ev(other) == y
                check_inv(other)
                if rep.disjoint(other):
                    assert cur & y == 0, ("disjoint claim wrong", cur, y)
                    rep, cur = rep.merge(other), cur | y
            else:
                c = rnd.randrange(-(1 << 20), 1 << 20)
                assert ev(BitRep.of_const(c)) == c
            assert ev(rep) == cur, (op, ev(rep), cur)
            check_inv(rep)
            if rep.finite_below(64):
                assert 0 <= cur < (1 << 64)
            if rep.top is None and rnd.random() < 0.5:
                y = rnd.randrange(0, 1 << 20)
                yrep = BitRep.of_bytes_lsf([_iv((y >> (8 * i)) & 255) for i in range(3)]).and_const(rnd.randrange(1, 1 << 20))
                yv = ev(yrep)
                for opn, pyop in (("or", lambda p, q: p | q), ("and", lambda p, q: p & q), ("xor", lambda p, q: p ^ q)):
                    r = rep.bitwise(yrep, opn)
                    assert r is not None and ev(r) == pyop(cur, yv), ("bitwise", opn, cur, yv)
                    check_inv(r)
                n += 1
            a = rnd.randrange(0, 40)
            b = a + rnd.randrange(1, 16)
            got = sum(z3.simplify(_bits(base, bw, lo, w)).as_long() << rel for rel, w, base, bw, lo in rep.extract(a, b))
            assert got == (cur >> a) & ((1 << (b - a)) - 1), ("extract", a, b)
            n += 1
    return n + recombined


if __name__ == "__main__":
    print(validate())
