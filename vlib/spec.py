"""Declaration catalogue vocabulary (`Spec`) and its two renderings:

  * `render_class(decl)`  ->  the text of a real `class X(Packet): ...` statement (bisturi source)
  * `vlib/refmodel.py`    ->  an independent interpreter of the same Spec, written from the
                              documentation and the property statements (the oracle)

A declaration (`Decl`) is a list of (name, field spec).  Dynamic quantities (sizes, counts,
conditions, targets) are `Dyn` values: a constant, the name of an earlier field, an expression
text over field names, or the text of a callable.  The same text is what bisturi evaluates into
a deferred expression / calls, and what the reference evaluates eagerly on the parsed values.
"""


class Dyn:
    def __init__(self, kind, v):
        assert kind in ("const", "field", "expr", "callable")
        self.kind, self.v = kind, v

    def src(self):
        return repr(self.v) if self.kind == "const" else self.v

    def __repr__(self):
        return "Dyn(%s,%r)" % (self.kind, self.v)


def K(v):
    return Dyn("const", v)


def Fld(name):
    return Dyn("field", name)


def Ex(text):
    return Dyn("expr", text)


def Fn(text):
    return Dyn("callable", text)


def _dyn(x):
    if isinstance(x, Dyn) or x is None:
        return x
    if isinstance(x, (int, bytes)):
        return K(x)
    raise TypeError(x)


class F:
    """base of field specs; `move` = None | ('at', Dyn, ref) | ('shift', Dyn) | ('aligned', Dyn, ref)"""
    move = None
    default = None

    def at(self, pos, reference="innermost-pkt"):
        self.move = ("at", _dyn(pos), reference)
        return self

    def shift(self, n):
        self.move = ("shift", _dyn(n), "current-offset")
        return self

    def aligned(self, to, reference="begins"):
        self.move = ("aligned", _dyn(to), reference)
        return self

    def _mods(self):
        if self.move is None:
            return ""
        kind, d, ref = self.move
        if kind == "at":
            return ".at(%s, %r)" % (d.src(), ref)
        if kind == "shift":
            return ".shift(%s)" % d.src()
        return ".aligned(%s, %r)" % (d.src(), ref)


class Int(F):
    def __init__(self, n=4, signed=False, endian=None, default=None):
        self.n, self.signed, self.endian, self.default = n, signed, endian, default

    def src(self):
        a = [str(self.n)]
        if self.signed:
            a.append("signed=True")
        if self.endian is not None:
            a.append("endianness=%r" % self.endian)
        if self.default is not None:
            a.append("default=%r" % self.default)
        return "Int(%s)" % ", ".join(a) + self._mods()


class Data(F):
    """size: Dyn | None; until: bytes | None; regex: bytes pattern | None ('$' = end of string)"""

    def __init__(self, size=None, until=None, regex=None, include=False, default=None):
        self.size, self.until, self.regex, self.include, self.default = _dyn(size), until, regex, include, default
        assert sum(x is not None for x in (size, until, regex)) == 1

    def src(self):
        if self.size is not None:
            a = [self.size.src()]
        elif self.until is not None:
            a = ["until_marker=%r" % self.until]
        elif self.regex == b"$":
            a = ["until_marker=EOS"]
        else:
            a = ["until_marker=re.compile(%r)" % self.regex]
        if self.include:
            a.append("include_delimiter=True")
        if self.default is not None:
            a.append("default=%r" % self.default)
        return "Data(%s)" % ", ".join(a) + self._mods()


class Bits(F):
    def __init__(self, w, default=None):
        self.w, self.default = w, default

    def src(self):
        return "Bits(%d%s)" % (self.w, "" if self.default is None else ", default=%r" % self.default) + self._mods()


class Ref(F):
    """reference to a nested declaration"""

    def __init__(self, decl):
        self.decl = decl

    def src(self):
        return "Ref(%s)" % self.decl.name + self._mods()


class RefSel(F):
    """reference through a selector evaluated at run time: `key` (Dyn over the already parsed fields)
    picks one of `options` {value: F | Decl}; `other` is used for any other key value."""

    def __init__(self, key, options, other, default_src):
        self.key, self.options, self.other, self.default_src = _dyn(key), options, other, default_src

    def selector_src(self):
        key = self.key.v if self.key.kind == "field" else "(%s)" % self.key.v
        parts = []
        for val, opt in self.options.items():
            parts.append("%s if pkt.%s == %r else " % (_opt_src(opt), key, val))
        return "lambda pkt, **k: " + "".join(parts) + _opt_src(self.other)

    def src(self):
        return "Ref(%s, default=%s)" % (self.selector_src(), self.default_src) + self._mods()


def _opt_src(opt):
    if isinstance(opt, Decl):
        return "%s()" % opt.name
    return opt.src()


class Seq(F):
    def __init__(self, elem, count=None, until=None, when=None, aligned=None, default=None):
        self.elem, self.count, self.until, self.when, self.aligned_to = elem, _dyn(count), _dyn(until), _dyn(when), aligned
        self.default = default
        assert (count is None) != (until is None)

    def src(self):
        a = []
        if self.count is not None:
            a.append("count=%s" % self.count.src())
        if self.until is not None:
            a.append("until=%s" % self.until.src())
        if self.when is not None:
            a.append("when=%s" % self.when.src())
        if self.aligned_to is not None:
            a.append("aligned=%d" % self.aligned_to)
        if self.default is not None:
            a.append("default=%s" % self.default)
        return "%s.repeated(%s)" % (self.elem.src(), ", ".join(a)) + self._mods()


class Opt(F):
    def __init__(self, elem, when, default=None):
        self.elem, self.when, self.default = elem, _dyn(when), default

    def src(self):
        extra = "" if self.default is None else ", default=%s" % self.default
        return "%s.when(%s%s)" % (self.elem.src(), self.when.src(), extra) + self._mods()


class Em(F):
    def src(self):
        return "Em()" + self._mods()


GEN = {
    "generic": {"generate_for_pack": False, "generate_for_unpack": False},
    "generated": {},
}


class Decl:
    def __init__(self, name, fields, **opts):
        self.name, self.fields, self.opts = name, fields, opts

    def subdecls(self, seen=None):
        """nested declarations, dependencies first"""
        out = []

        def walk(f):
            if isinstance(f, Ref):
                for d in f.decl.subdecls():
                    if d not in out:
                        out.append(d)
                if f.decl not in out:
                    out.append(f.decl)
            elif isinstance(f, RefSel):
                for o in list(f.options.values()) + [f.other]:
                    if isinstance(o, Decl):
                        for d in o.subdecls():
                            if d not in out:
                                out.append(d)
                        if o not in out:
                            out.append(o)
                    else:
                        walk(o)
            elif isinstance(f, (Seq, Opt)):
                walk(f.elem)
        for _, f in self.fields:
            walk(f)
        return out

    def uses_reference(self, ref):
        def has(f):
            if f.move is not None and f.move[2] == ref:
                return True
            if isinstance(f, (Seq, Opt)):
                return has(f.elem)
            return False
        return any(has(f) for _, f in self.fields) or any(d.uses_reference(ref) for d in self.subdecls())

    def uses_seq_alignment(self):
        def has(f):
            if isinstance(f, Seq):
                return (f.aligned_to or self.opts.get("align", 1)) != 1 or has(f.elem)
            if isinstance(f, Opt):
                return has(f.elem)
            return False
        return any(has(f) for _, f in self.fields) or any(d.uses_seq_alignment() for d in self.subdecls())

    def absolute_positioning(self):
        """True when some position depends on the start of the data (raw index 0)"""
        if "align" in self.opts or self.uses_reference("begins") or self.uses_seq_alignment():
            return True
        return any(d.absolute_positioning() for d in self.subdecls())


def render_class(decl, gen="generated", extra_opts=None, name=None):
    opts = dict(decl.opts)
    opts.update(GEN[gen] if isinstance(gen, str) else gen)
    if extra_opts:
        opts.update(extra_opts)
    lines = ["class %s(Packet):" % (name or decl.name)]
    lines.append("    __bisturi__ = %r" % (opts,))
    for fname, f in decl.fields:
        lines.append("    %s = %s" % (fname, f.src()))
    return "\n".join(lines) + "\n"


def render_all(decl, gen="generated"):
    """class statements for the declaration and everything it references (dependencies first)"""
    return "\n\n".join(render_class(d, gen) for d in decl.subdecls() + [decl]) + "\n"


PRELUDE = '''\
import re
from bisturi.packet import Packet, PacketError
from bisturi.field import Int, Data, Bits, Ref, Em, EOS, Field
from vlib.hx import assume, fix
'''
