"""E2 - environment for the generated-code cache (C15, C16).

`CodeGenerator.generate_code` talks to the OS and to the import system through the names
`os`, `open` and `SourceFileLoader` of module bisturi.codegen.  `Env.install()` rebinds exactly
those three names to thin wrappers around the REAL functions, working on real files inside a
per-path scratch directory, so what a truncated or foreign module does is observed (real
SourceFileLoader, real byte-code cache), not modelled.  The wrappers add what the properties
quantify over, driven by solver variables of the harness:

  * a step counter over the file-system operations (exists, load, remove, makedirs,
    open-truncate, each write, close, reload); the process "dies" (Crash) right AFTER step
    `crash_after`, and a write that is the dying step only puts its first `torn` bytes on disk;
  * an interferer: another process that replays the write side of a cache update
    (remove byte-code, truncate, four writes); `progress[i]` tells how many of its steps have
    happened before our i-th operation.

Nothing here changes bisturi; the names are restored by `Env.uninstall()`.
"""
import importlib
import os as _os
import sys
from importlib.machinery import SourceFileLoader as _RealLoader

import bisturi.codegen as _cg


class _Null:
    def __enter__(self):
        return self

    def __exit__(self, *a):
        return False


def untraced():
    """real file-system / import-system work carries no symbolic data: run it outside CrossHair's tracer (importlib builds
    byte-code buffers with bytearray(), which the tracer would replace by a proxy the C file API rejects)"""
    try:
        from crosshair.tracers import NoTracing, is_tracing
        if is_tracing():
            return NoTracing()
    except Exception:
        pass
    return _Null()


class Crash(BaseException):
    """the defining process dies here"""


class _PathProxy:
    def __init__(self, env):
        self._env = env

    def exists(self, path):
        self._env.tick("exists")
        r = _os.path.exists(path)
        self._env.after()
        return r

    def __getattr__(self, name):
        return getattr(_os.path, name)


class _OsProxy:
    def __init__(self, env):
        self._env = env
        self.path = _PathProxy(env)

    def remove(self, path):
        self._env.tick("remove")
        _os.remove(path)
        self._env.after()

    def replace(self, src, dst):
        self._env.tick("replace")
        _os.replace(src, dst)
        self._env.after()

    def rename(self, src, dst):
        self._env.tick("rename")
        _os.rename(src, dst)
        self._env.after()

    def makedirs(self, path, exist_ok=False):
        self._env.tick("makedirs")
        _os.makedirs(path, exist_ok=exist_ok)
        self._env.after()

    def __getattr__(self, name):
        return getattr(_os, name)


class _File:
    def __init__(self, env, path, mode):
        self._env, self._path = env, path
        env.write_paths.append(path)
        env.tick("open-truncate")
        self._f = open(path, mode)
        self._f.flush()
        env.after()

    def write(self, data):
        env = self._env
        env.tick("write")
        if env.dying():
            n = env.torn
            part = data[:n] if n < len(data) else data
            part = str(part)
            with untraced():
                self._f.write(part)
                self._f.flush()
                self._f.close()
            raise Crash()
        with untraced():
            self._f.write(data)
            self._f.flush()
        env.after()

    def __enter__(self):
        return self

    def __exit__(self, *a):
        self._env.tick("close")
        self._f.close()
        self._env.after()
        return False


class _Loader(_RealLoader):
    """the REAL SourceFileLoader, counting one step per load whichever protocol the code under test uses
    (load_module(), or spec_from_loader + exec_module)"""

    def __init__(self, env, name, path):
        _RealLoader.__init__(self, name, path)
        self._env, self._name, self._path = env, name, path

    def load_module(self, fullname=None):
        self._env.tick("load")
        importlib.invalidate_caches()
        try:
            with untraced():
                m = _RealLoader(self._name, self._path).load_module()
        finally:
            self._env.loaded.append(self._name)
        self._env.after()
        return m

    def exec_module(self, module):
        self._env.tick("load")
        importlib.invalidate_caches()
        try:
            with untraced():
                _RealLoader.exec_module(self, module)
        finally:
            self._env.loaded.append(self._name)
        self._env.after()


class Env:
    def __init__(self, crash_after=None, torn=0, interferer=None, progress=None):
        self.crash_after = crash_after      # die right after this step index (None: never)
        self.torn = torn                    # bytes of the dying write that reach the disk
        self.step = -1
        self.trace = []
        self.loaded = []
        self.write_paths = []               # files opened for writing by the code under test
        self.interferer = interferer        # list of callables (the other process' steps), or None
        self.progress = progress or []      # progress[i] = interferer steps done before our i-th operation
        self._done = 0
        self._saved = None
        self.interferer_error = None

    # -- step protocol ---------------------------------------------------------------------------
    def tick(self, kind):
        self.step += 1
        self.trace.append(kind)
        if self.interferer is not None and self.step < len(self.progress):
            target = self.progress[self.step]
            while self._done < target and self._done < len(self.interferer):
                self._other_step()

    def dying(self):
        return self.crash_after is not None and self.step == self.crash_after

    def after(self):
        if self.dying():
            raise Crash()

    def _other_step(self):
        """one step of the other process; if it fails, that process is dead (remembered, it is a finding of its own)"""
        try:
            self.interferer[self._done]()
            self._done += 1
        except Exception as e:
            self.interferer_error = e
            self._done = len(self.interferer)

    def finish_interferer(self):
        while self.interferer is not None and self._done < len(self.interferer):
            self._other_step()

    # -- installation ----------------------------------------------------------------------------
    def install(self):
        self._saved = (_cg.os, _cg.__dict__.get("open"), _cg.SourceFileLoader)
        env = self
        _cg.os = _OsProxy(env)
        _cg.open = lambda path, mode="r": _File(env, path, mode)
        _cg.SourceFileLoader = lambda name, path: _Loader(env, name, path)
        return self

    def uninstall(self):
        if self._saved is not None:
            _cg.os, op, _cg.SourceFileLoader = self._saved
            if op is None:
                _cg.__dict__.pop("open", None)
            else:
                _cg.open = op
            self._saved = None

    def __enter__(self):
        return self.install()

    def __exit__(self, *a):
        self.uninstall()
        return False


import copy as _copy

# module-level mutable state of bisturi.codegen as it is right after import: a new process starts from it
_INITIAL_STATE = dict((k, _copy.deepcopy(v)) for k, v in vars(_cg).items()
                      if isinstance(v, (dict, list, set)) and not k.startswith("__"))


def fresh_process(module_names):
    """forget what earlier 'processes' imported or remembered (sys.modules entries, module-level caches of bisturi.codegen)"""
    for n in list(module_names):
        sys.modules.pop(n, None)
    for k, v in _INITIAL_STATE.items():
        cur = getattr(_cg, k, None)
        if isinstance(cur, dict):
            cur.clear()
            cur.update(_copy.deepcopy(v))
        elif isinstance(cur, list):
            cur[:] = _copy.deepcopy(v)
        elif isinstance(cur, set):
            cur.clear()
            cur.update(v)
    importlib.invalidate_caches()


def interferer_steps(path, texts, pyc_path=None, atomic=False, tmp_path=None):
    """the write side of ANOTHER process updating the same cache file, in the protocol the code under test uses:
    in place (remove byte-code, truncate, writes, close) or atomic (remove byte-code, private temporary file, writes,
    close, os.replace)"""
    state = {}
    target = path if not atomic else (tmp_path or path + ".99999.tmp")

    def rm():
        try:
            if pyc_path and _os.path.exists(pyc_path):
                _os.remove(pyc_path)
        except OSError:
            pass

    def trunc():
        _os.makedirs(_os.path.dirname(path), exist_ok=True)
        state["f"] = open(target, "w")
        state["f"].flush()

    def wr(t):
        def w():
            state["f"].write(t)
            state["f"].flush()
        return w

    def close():
        state["f"].close()

    def repl():
        _os.replace(target, path)
    return [rm, trunc] + [wr(t) for t in texts] + [close] + ([repl] if atomic else [])
