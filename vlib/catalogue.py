"""The declaration catalogue: the enumerated "programs" dimension of the claims.

Families:  S singles between two one-byte sentinels, D documented packets (README / docs / docstrings),
           P pairs, N nesting.  Each entry: Decl, input-length bounds (quick, thorough), feature tags.

Narrow control fields: a field whose value steers Python control flow (a Data size, a repeated count,
an `at` target) is taken from Bits(2..4) + padding bits where possible so that the engine's case split is
complete without assumptions; entries with a one-byte control field cost ~256 paths and are kept short.
"""
from vlib.spec import (Bits, Data, Decl, Em, Ex, Fld, Fn, Int, K, Opt, Ref, RefSel, Seq)

CAT = {}


def add(key, decl, lq, lt, *tags):
    assert key not in CAT, key
    CAT[key] = {"key": key, "decl": decl, "lq": lq, "lt": lt, "tags": set(tags)}
    return decl


def sent(name, fields, **opts):
    """fields between two one-byte sentinels"""
    return Decl(name, [("a", Int(1))] + fields + [("z", Int(1))], **opts)


# ----------------------------------------------------------------------------- S: integers
for n, signed, endian in [(1, False, None), (1, True, None), (2, True, "little"), (2, False, "big"), (3, False, None),
                          (3, True, "little"), (4, False, "network"), (4, True, "little"), (5, True, None),
                          (6, False, "little"), (7, False, None), (8, False, "little"), (8, True, None),
                          (9, False, None), (12, True, "little"), (16, False, None)]:
    key = "s_int%d%s%s" % (n, "s" if signed else "u", (endian or "dflt")[0])
    add(key, sent("SInt%d%s%s" % (n, "s" if signed else "u", (endian or "dflt")[0]),
                  [("v", Int(n, signed, endian))]), n + 2, n + 3, "S", "int", "flat")
# the same widths as the LAST field of the packet (a truncated tail is then not masked by a following field)
for n, signed, endian in [(1, False, None), (2, False, None), (3, False, None), (3, True, "little"), (4, True, None),
                          (5, False, "little"), (6, True, None), (7, False, None), (8, False, None), (9, True, "little"),
                          (12, False, None), (16, True, None)]:
    key = "s_tail_int%d%s%s" % (n, "s" if signed else "u", (endian or "dflt")[0])
    add(key, Decl("STailInt%d%s%s" % (n, "s" if signed else "u", (endian or "dflt")[0]),
                  [("a", Int(1)), ("v", Int(n, signed, endian))]), n + 1, n + 2, "S", "int", "flat", "tail")
add("s_int_cls_little", Decl("SIntClsLittle", [("a", Int(2)), ("b", Int(3)), ("c", Int(2, endian="big"))],
                             endianness="little"), 7, 8, "S", "int", "flat", "clsopt")
add("s_int_run", Decl("SIntRun", [("a", Int(2)), ("b", Int(1, True)), ("c", Int(4, endian="little")),
                                  ("d", Int(3)), ("e", Int(2, True, "little"))]), 12, 13, "S", "int", "flat", "run")

# ----------------------------------------------------------------------------- S: bits
add("s_bits_4_12_8", sent("SBits4128", [("x", Bits(4)), ("y", Bits(12)), ("w", Bits(8))]), 5, 6, "S", "bits", "flat")
add("s_bits_1_7", sent("SBits17", [("x", Bits(1)), ("y", Bits(7))]), 3, 4, "S", "bits", "flat")
add("s_bits_3_5_16_16", Decl("SBits40", [("x", Bits(3)), ("y", Bits(5)), ("u", Bits(16)), ("w", Bits(16))]), 5, 6,
    "S", "bits", "flat")
add("s_bits_48", Decl("SBits48", [("x", Bits(7)), ("y", Bits(33)), ("w", Bits(8))]), 6, 7, "S", "bits", "flat")
add("s_tail_bits24", Decl("STailBits24", [("a", Int(1)), ("x", Bits(4)), ("y", Bits(20))]), 4, 5, "S", "bits", "flat", "tail")
add("s_tail_bits16", Decl("STailBits16", [("a", Int(1)), ("x", Bits(9)), ("y", Bits(7))]), 3, 4, "S", "bits", "flat", "tail")
add("s_bits_two_runs", Decl("SBits2Runs", [("x", Bits(4)), ("y", Bits(4)), ("m", Int(1)), ("u", Bits(2)), ("w", Bits(6))]),
    3, 4, "S", "bits", "flat")

# ----------------------------------------------------------------------------- S: data, explicit sizes
add("s_data0", sent("SData0", [("d", Data(0))]), 3, 4, "S", "data", "flat", "size")
add("s_data3", sent("SData3", [("d", Data(3))]), 6, 7, "S", "data", "flat", "size")
add("s_data_field8", Decl("SDataField8", [("n", Int(1)), ("d", Data(Fld("n"))), ("z", Int(1))]), 5, 6,
    "S", "data", "size", "ctl8")
add("s_data_fieldb", Decl("SDataFieldB", [("n", Bits(3)), ("p", Bits(5)), ("d", Data(Fld("n"))), ("z", Int(1))]), 6, 8,
    "S", "data", "size")
add("s_data_expr", Decl("SDataExpr", [("n", Bits(3)), ("p", Bits(5)), ("d", Data(Ex("n - 1"))), ("z", Int(1))]), 6, 8,
    "S", "data", "size", "expr", "negsize")
add("s_data_expr2", Decl("SDataExpr2", [("n", Bits(2)), ("p", Bits(6)), ("d", Data(Ex("n * 2"))), ("z", Int(1))]), 6, 8,
    "S", "data", "size", "expr")
add("s_data_call", Decl("SDataCall", [("n", Bits(4)), ("p", Bits(4)),
                                      ("d", Data(Fn("lambda pkt, **k: pkt.n & 3"))), ("z", Int(1))]), 6, 7,
    "S", "data", "size", "callable")
add("s_data_signed", Decl("SDataSigned", [("n", Int(1, True)), ("d", Data(Fld("n"))), ("z", Int(1))]), 4, 5,
    "S", "data", "size", "ctl8", "negsize")

# ----------------------------------------------------------------------------- S: data, delimiters
for mk, marker in [("nul", b"\x00"), ("ab", b"ab"), ("aab", b"aab")]:
    for inc in (False, True):
        for sbl in (None, 0, 1, 2, 4):
            opts = {} if sbl is None else {"search_buffer_length": sbl}
            nm = "s_mark_%s_%s_%s" % (mk, "inc" if inc else "exc", "x" if sbl is None else sbl)
            lq = 5 if len(marker) == 1 else 6
            add(nm, sent("SMark%s%s%s" % (mk.capitalize(), "I" if inc else "E", "x" if sbl is None else sbl),
                         [("d", Data(until=marker, include=inc))], **opts), lq, lq + 1,
                "S", "data", "marker", "delim", "sbl" if sbl is not None else "nosbl",
                *(["noaccept"] if (sbl and sbl < len(marker)) else []))
for rk, rx, inc in [("xplus_inc", b"X+", True), ("xplus_exc", b"X+", False), ("xplus_or_end_inc", b"X+|$", True),
                    ("xplus_or_end_exc", b"X+|$", False), ("xy_exc", b"XY", False)]:
    add("s_regex_" + rk, sent("SRegex" + "".join(p.capitalize() for p in rk.split("_")),
                              [("d", Data(regex=rx, include=inc))]), 5, 6, "S", "data", "regex", "delim",
        *(["regex_lossy"] if (not inc and rk != "xy_exc") else []), *(["regex_nokeep"] if not inc else []))
# regex delimiters with left-looking zero-width assertions (their meaning must not depend on bytes before the field)
add("s_regex_caret", sent("SRegexCaret", [("d", Data(regex=b"^X|Y", include=False))]), 5, 6, "S", "data", "regex", "delim",
    "regex_lossy", "regex_nokeep")
add("s_regex_lookbehind", sent("SRegexLookbehind", [("d", Data(regex=b'(?<!Q)"', include=True))]), 5, 6, "S", "data", "regex", "delim")
add("s_regex_lookbehind2", Decl("SRegexLookbehind2", [("d", Data(regex=b"(?<=a)b", include=False)), ("z", Int(1))]), 4, 5,
    "S", "data", "regex", "delim", "regex_nokeep")
add("s_regex_sbl2", sent("SRegexSbl2", [("d", Data(regex=b"X+", include=True))], search_buffer_length=2), 5, 6,
    "S", "data", "regex", "delim", "sbl", "regex_ext")
add("s_eos", Decl("SEos", [("a", Int(1)), ("d", Data(regex=b"$"))]), 4, 6, "S", "data", "eos", "delim", "readtoend")
add("s_eos_sbl", Decl("SEosSbl", [("a", Int(1)), ("d", Data(regex=b"$"))], search_buffer_length=2), 5, 6,
    "S", "data", "eos", "delim", "sbl", "readtoend")

# ----------------------------------------------------------------------------- S: references
Point = Decl("Point", [("x", Int(1)), ("y", Int(2))])
add("s_ref", sent("SRef", [("r", Ref(Point))]), 5, 6, "S", "ref")
PointV = Decl("PointV", [("n", Bits(2)), ("p", Bits(6)), ("d", Data(Fld("n")))])
add("s_ref_var", sent("SRefVar", [("r", Ref(PointV))]), 5, 7, "S", "ref")
add("s_refsel_field", Decl("SRefSelField", [("t", Int(1)),
                                            ("r", RefSel(Fld("t"), {1: Int(2), 2: Data(1)}, Int(1, True), "0")),
                                            ("z", Int(1))]), 4, 5, "S", "refsel", "ctl8")
Leaf1 = Decl("Leaf1", [("k", Int(1))])
Leaf2 = Decl("Leaf2", [("k", Int(2, endian="little"))])
add("s_refsel_pkt", Decl("SRefSelPkt", [("t", Bits(1)), ("p", Bits(7)),
                                        ("r", RefSel(Fld("t"), {1: Leaf2}, Leaf1, "Leaf1()")),
                                        ("z", Int(1))]), 4, 5, "S", "refsel")
add("s_refsel_mixed", Decl("SRefSelMixed", [("t", Bits(2)), ("p", Bits(6)),
                                            ("r", RefSel(Fld("t"), {0: Int(1), 1: Leaf2, 2: Data(2)}, Point, "0")),
                                            ("z", Int(1))]), 5, 6, "S", "refsel")

# ----------------------------------------------------------------------------- S: sequences
add("s_seq_const", sent("SSeqConst", [("s", Seq(Int(2), count=2))]), 6, 7, "S", "seq", "count")
add("s_seq_const0", sent("SSeqConst0", [("s", Seq(Int(2), count=0))]), 3, 4, "S", "seq", "count")
add("s_seq_field", Decl("SSeqField", [("n", Bits(2)), ("p", Bits(6)), ("s", Seq(Int(1), count=Fld("n"))), ("z", Int(1))]),
    5, 6, "S", "seq", "count")
add("s_seq_field_signed", Decl("SSeqFieldSigned", [("n", Int(1, True)), ("s", Seq(Int(1), count=Fld("n"))), ("z", Int(1))]),
    4, 5, "S", "seq", "count", "ctl8", "negcount")
add("s_seq_expr", Decl("SSeqExpr", [("n", Bits(2)), ("p", Bits(6)), ("s", Seq(Int(1), count=Ex("n - 1"))), ("z", Int(1))]),
    5, 6, "S", "seq", "count", "expr", "negcount")
add("s_seq_call", Decl("SSeqCall", [("n", Bits(3)), ("p", Bits(5)),
                                    ("s", Seq(Int(2), count=Fn("lambda pkt, **k: pkt.n // 3"))), ("z", Int(1))]),
    6, 7, "S", "seq", "count", "callable")
add("s_seq_until_val", Decl("SSeqUntilVal", [("s", Seq(Int(1), until=Fn("lambda pkt, **k: pkt.s[-1] == 0"))), ("z", Int(1))]),
    4, 5, "S", "seq", "until")
add("s_seq_until_len", Decl("SSeqUntilLen", [("n", Bits(2)), ("p", Bits(6)),
                                             ("s", Seq(Int(1), until=Fn("lambda pkt, **k: len(pkt.s) > pkt.n"))), ("z", Int(1))]),
    5, 6, "S", "seq", "until")
add("s_seq_until_off", Decl("SSeqUntilOff", [("s", Seq(Int(1), until=Fn("lambda pkt, raw, offset, **k: offset >= len(raw) - 1"))),
                                             ("z", Int(1))]), 4, 5, "S", "seq", "until", "rawcb")
add("s_seq_when", Decl("SSeqWhen", [("t", Bits(1)), ("n", Bits(2)), ("p", Bits(5)),
                                    ("s", Seq(Int(1), count=Fld("n"), when=Ex("t == 1"))), ("z", Int(1))]),
    5, 6, "S", "seq", "count", "when")
add("s_seq_until_when", Decl("SSeqUntilWhen", [("t", Int(1)),
                                               ("s", Seq(Int(1), until=Fn("lambda pkt, **k: pkt.s[-1] == 0"), when=Fld("t"))),
                                               ("z", Int(1))]), 4, 5, "S", "seq", "until", "when", "ctl8x")
add("s_seq_aligned", Decl("SSeqAligned", [("a", Int(1)), ("s", Seq(Int(1), count=2, aligned=2)), ("z", Int(1))]),
    6, 7, "S", "seq", "count", "seqalign", "absolute")
add("s_seq_until_aligned", Decl("SSeqUntilAligned", [("s", Seq(Int(1), until=Fn("lambda pkt, **k: pkt.s[-1] == 0"), aligned=2)),
                                                    ("z", Int(1))]), 5, 6, "S", "seq", "until", "seqalign", "absolute", "move")
add("s_seq_until_aligned3", Decl("SSeqUntilAligned3", [("a", Int(1)), ("s", Seq(Int(2), until=Fn("lambda pkt, **k: len(pkt.s) >= 2"), aligned=3)),
                                                      ("z", Int(1))]), 9, 10, "S", "seq", "until", "seqalign", "absolute", "move")
add("s_seq_ref", Decl("SSeqRef", [("n", Bits(2)), ("p", Bits(6)), ("s", Seq(Ref(Leaf2), count=Fld("n"))), ("z", Int(1))]),
    6, 8, "S", "seq", "count", "ref")
add("s_seq_data_mark", Decl("SSeqDataMark", [("s", Seq(Data(until=b"\x00"), count=2)), ("z", Int(1))]),
    5, 6, "S", "seq", "count", "data")
add("s_seq_refsel", Decl("SSeqRefSel", [("t", Bits(1)), ("n", Bits(2)), ("p", Bits(5)),
                                        ("s", Seq(RefSel(Fld("t"), {1: Int(2)}, Int(1), "0"), count=Fld("n"))), ("z", Int(1))]),
    5, 7, "S", "seq", "count", "refsel")

# ----------------------------------------------------------------------------- S: optional
add("s_opt_expr", Decl("SOptExpr", [("t", Bits(2)), ("p", Bits(6)), ("o", Opt(Int(2), Ex("t == 1"))), ("z", Int(1))]),
    5, 6, "S", "opt")
add("s_opt_field", Decl("SOptField", [("t", Int(1)), ("o", Opt(Data(2), Fld("t"))), ("z", Int(1))]),
    4, 5, "S", "opt", "ctl8x")
add("s_opt_ref", Decl("SOptRef", [("t", Bits(1)), ("p", Bits(7)), ("o", Opt(Ref(Point), Fld("t"))), ("z", Int(1))]),
    5, 6, "S", "opt", "ref")
add("s_opt_call", Decl("SOptCall", [("t", Int(1)), ("o", Opt(Int(1), Fn("lambda pkt, **k: pkt.t > 127"))), ("z", Int(1))]),
    3, 4, "S", "opt", "callable")
add("s_opt_chain", Decl("SOptChain", [("t", Bits(2)), ("p", Bits(6)), ("o", Opt(Int(1), Ex("t & 1"))),
                                      ("q", Opt(Int(1), Ex("t & 2"))), ("z", Int(1))]), 4, 5, "S", "opt")

# ----------------------------------------------------------------------------- S: positioning
add("s_at_const", Decl("SAtConst", [("a", Int(1)), ("v", Int(2).at(3)), ("z", Int(1))]), 6, 7, "S", "move", "at")
add("s_at_field", Decl("SAtField", [("o", Bits(3)), ("p", Bits(5)), ("v", Int(1).at(Fld("o"))), ("z", Int(1))]),
    6, 9, "S", "move", "at", "overlap")
add("s_at_call", Decl("SAtCall", [("o", Bits(2)), ("p", Bits(6)),
                                  ("v", Int(1).at(Fn("lambda pkt, **k: pkt.o + 1"))), ("z", Int(1))]), 5, 6,
    "S", "move", "at", "callable")
add("s_at_begins", Decl("SAtBegins", [("a", Int(1)), ("v", Int(1).at(3, "begins")), ("z", Int(1))]), 5, 6,
    "S", "move", "at", "absolute")
add("s_at_current", Decl("SAtCurrent", [("a", Int(1)), ("v", Int(1).at(2, "current-offset")), ("z", Int(1))]), 5, 6,
    "S", "move", "at")
add("s_shift", Decl("SShift", [("a", Int(1)), ("v", Int(2).shift(2)), ("z", Int(1))]), 6, 7, "S", "move", "shift")
add("s_shift_field", Decl("SShiftField", [("o", Bits(2)), ("p", Bits(6)), ("v", Int(1).shift(Fld("o"))), ("z", Int(1))]),
    6, 7, "S", "move", "shift")
add("s_shift_back", Decl("SShiftBack", [("i", Int(1).at(3)), ("d", Data(3).shift(-4))]), 4, 5, "S", "move", "shift", "at")
add("s_shift_overlap", Decl("SShiftOverlap", [("a", Int(2)), ("v", Int(1).shift(-1)), ("z", Int(1))]), 4, 5,
    "S", "move", "shift", "overlap", "alwaysoverlap")
add("s_align_begins", Decl("SAlignBegins", [("a", Int(1)), ("v", Int(1).aligned(4)), ("z", Int(1))]), 6, 7,
    "S", "move", "align", "absolute")
add("s_align_inner", Decl("SAlignInner", [("a", Int(1)), ("v", Int(1).aligned(4, "innermost-pkt")), ("z", Int(1))]), 6, 7,
    "S", "move", "align")
add("s_align_current", Decl("SAlignCurrent", [("a", Int(1)), ("v", Int(1).aligned(4, "current-offset")), ("z", Int(1))]),
    3, 4, "S", "move", "align")
add("s_align_3", Decl("SAlign3", [("n", Bits(2)), ("p", Bits(6)), ("d", Data(Fld("n"))),
                                  ("v", Int(1).aligned(3, "innermost-pkt"))]), 5, 8, "S", "move", "align")
add("s_cls_align", Decl("SClsAlign", [("a", Int(1)), ("b", Int(2)), ("c", Int(1))], align=4), 9, 10,
    "S", "move", "align", "clsopt", "absolute")
add("s_em_tail", Decl("SEmTail", [("n", Bits(2)), ("p", Bits(6)), ("d", Data(Fld("n"))),
                                  ("tail", Em().aligned(4, "innermost-pkt"))]), 4, 5, "S", "move", "align", "em")
add("s_em_at_then_before", Decl("SEmAtBefore", [("a", Int(1)), ("e", Em().at(3)), ("v", Data(3).at(2))]), 5, 6,
    "S", "move", "at", "em", "emptyinside")

# combinations suggested by the seeded changes: positioned optional / bit group, byte order 'local', inner class options
add("s_opt_at", Decl("SOptAt", [("t", Bits(1)), ("p", Bits(7)), ("o", Opt(Int(1), Fld("t")).at(3)), ("z", Int(1))]), 5, 6,
    "S", "opt", "move", "at")
add("s_bits_at", Decl("SBitsAt", [("a", Int(1)), ("x", Bits(3).at(2)), ("y", Bits(5)), ("z", Int(1))]), 5, 6, "S", "bits", "move", "at")
add("s_int_local", Decl("SIntLocal", [("a", Int(2, endian="local")), ("b", Int(1)), ("c", Int(4, True, "local"))]), 7, 8,
    "S", "int", "flat", "tail")
InnerAlign = Decl("InnerAlign", [("a", Int(1)), ("b", Int(1))], align=2)
add("n_inner_cls_align", Decl("OuterOfAligned", [("o", Int(1)), ("i", Ref(InnerAlign)), ("z", Int(1))]), 6, 7,
    "N", "move", "align", "nest", "ref", "absolute")
add("s_seq_at", Decl("SSeqAt", [("n", Bits(2)), ("p", Bits(6)), ("s", Seq(Int(1), count=Fld("n")).at(2)), ("z", Int(1))]), 6, 7,
    "S", "seq", "count", "move", "at")

# ----------------------------------------------------------------------------- D: documented packets
add("d_tlv", Decl("TLV", [("type", Int(1)), ("length", Int(1)), ("value", Data(Fld("length")))]), 4, 5, "D", "data", "ctl8", "size")
add("d_based_on_other", Decl("BasedOnOther", [("length", Bits(2)), ("pad", Bits(6)), ("a", Data(2)),
                                              ("b", Data(Fld("length"))), ("c", Data(Ex("length * 2")))]), 7, 9,
    "D", "data", "expr", "size")
add("d_based_on_pattern", Decl("BasedOnPattern", [("a", Data(until=b"\x00", include=True)), ("b", Data(until=b"ff")),
                                                  ("c", Data(regex=b"X+|$", include=True))]), 5, 6,
    "D", "data", "delim", "regex", "regex_ext")
add("d_example_when", Decl("Example", [("type", Int(1)), ("nonzero_msg", Opt(Data(2), Fld("type"))),
                                       ("typeone_msg", Opt(Data(2), Ex("type == 1")))]), 5, 5, "D", "opt", "ctl8x")
Bag = Decl("Bag", [("num", Bits(2)), ("pad", Bits(6)), ("objects", Seq(Int(1), count=Fld("num")))])
add("d_bag", Bag, 4, 5, "D", "seq", "count")
Box = Decl("Box", [("bags", Seq(Ref(Bag), until=Fn("lambda pkt, **k: pkt.bags[-1].num == 0")))])
add("d_box", Box, 4, 6, "D", "seq", "until", "ref", "nest")
add("d_room", Decl("Room", [("tight", Seq(Ref(Box), count=1)), ("no_so_tight", Seq(Ref(Box), count=2, aligned=2))]),
    6, 7, "D", "seq", "ref", "nest", "seqalign", "absolute")
Pt = Decl("Pt", [("x", Int(1)), ("y", Int(1))])
add("d_line", Decl("Line", [("begin", Ref(Pt)), ("end", Ref(Pt)),
                            ("extra", RefSel(K(0), {}, Pt, "Pt(y=7)"))]), 6, 7, "D", "ref", "refsel")
add("d_folder", Decl("Folder", [("offset_of_file", Bits(3)), ("pad", Bits(5)), ("file_data", Data(2).at(Fld("offset_of_file")))]),
    5, 9, "D", "move", "at", "overlap")
add("d_folder_overlap", Decl("FolderOverlap", [("offset_of_file", Bits(3)), ("pad", Bits(5)), ("payload", Data(3)),
                                               ("file_data", Data(2).at(Fld("offset_of_file")))]), 6, 9,
    "D", "move", "at", "overlap")
# an 'offset + size' record: the (possibly EMPTY) body lives wherever the offset says, also on top of / inside / right at
# the start of bytes other fields hold
add("d_blob_at", Decl("BlobAt", [("o", Bits(3)), ("n", Bits(2)), ("p", Bits(3)), ("c", Int(1)),
                                 ("body", Data(Fld("n")).at(Fld("o"))), ("tail", Int(1).at(3))]), 6, 8,
    "D", "move", "at", "overlap", "emptyat")
Vec = Decl("Vec", [("data", Data(2).at(1))])
add("d_tensor", Decl("Tensor", [("vecs", Seq(Ref(Vec), count=2))]), 6, 7, "D", "move", "at", "nest", "seq", "ref")
Option = Decl("Option", [("len", Bits(2)), ("pad", Bits(6)), ("data", Data(Fld("len")))])
add("d_datagram_shift", Decl("DatagramShift", [("count_options", Bits(2)), ("pad", Bits(6)),
                                               ("options", Seq(Ref(Option), count=Fld("count_options")).shift(2)),
                                               ("checksum", Int(2))]), 6, 8, "D", "move", "shift", "seq", "ref", "nest")
add("d_datagram_aligned", Decl("DatagramAligned", [("count_options", Bits(1)), ("pad", Bits(7)),
                                                   ("options", Seq(Ref(Option), count=Fld("count_options")).aligned(4)),
                                                   ("checksum", Int(2))]), 7, 9,
    "D", "move", "align", "seq", "ref", "nest", "absolute")
add("d_datagram_elem_aligned", Decl("DatagramElemAligned", [("count_options", Bits(2)), ("pad", Bits(6)),
                                                            ("options", Seq(Ref(Option), count=Fld("count_options"), aligned=4)),
                                                            ("checksum", Int(1))]), 6, 9,
    "D", "move", "seqalign", "seq", "ref", "nest", "absolute")
add("d_datagram_cls_align", Decl("DatagramClsAlign", [("count_options", Int(1)),
                                                      ("options", Seq(Ref(Option), count=1)),
                                                      ("checksum", Int(2))], align=2), 7, 8,
    "D", "move", "align", "clsopt", "seq", "ref", "nest", "absolute")
PointB = Decl("PointB", [("x", Int(2)), ("y", Int(2).aligned(4, "begins"))])
add("d_named_point_begins", Decl("NamedPointB", [("name", Data(until=b"\x00")), ("point", Ref(PointB))]), 8, 9,
    "D", "move", "align", "nest", "ref", "delim", "absolute")
PointI = Decl("PointI", [("x", Int(2)), ("y", Int(2).aligned(4, "innermost-pkt"))])
add("d_named_point_inner", Decl("NamedPointI", [("name", Data(until=b"\x00")), ("point", Ref(PointI))]), 8, 9,
    "D", "move", "align", "nest", "ref", "delim")
add("d_datagram_em", Decl("DatagramEm", [("size", Bits(3)), ("pad", Bits(5)), ("data", Data(Fld("size"))),
                                         ("tail", Em().aligned(4))]), 6, 8, "D", "move", "align", "em", "absolute")
add("d_backwards", Decl("Backwards", [("i", Int(1).at(4)), ("d", Data(4).shift(-5))]), 5, 6, "D", "move", "at", "shift")
ListOfInts = Decl("ListOfInts", [("i", Seq(Int(1), count=2))])
add("d_nonbuggy", Decl("NonBuggy", [("i", Seq(Ref(ListOfInts), count=2))]), 5, 6, "D", "seq", "ref", "nest")
add("d_frame_control", Decl("FrameControl", [("version", Bits(2)), ("type", Bits(2)), ("subtype", Bits(4)),
                                             ("flags", Bits(8)), ("dur", Int(2, endian="little"))]), 4, 5, "D", "bits", "flat")

# README packets
add("d_tlv16", Decl("TypeLengthValue", [("type", Int(1)), ("length", Int(2)), ("value", Data(Fld("length")))]), 6, 8,
    "D", "data", "size", "ctl16")
add("d_frame_control_readme", Decl("FrameControlR", [("length", Bits(6)), ("more_fragments", Bits(1)), ("fragment_offset", Bits(9)),
                                                      ("data", Data(Fld("length")))]), 5, 7, "D", "data", "size", "bits")
add("d_image1d", Decl("Image1D", [("has_name", Bits(1)), ("count_numbers", Bits(7)), ("numbers", Seq(Int(1), count=Fld("count_numbers"))),
                                  ("optional_name", Opt(Data(until=b"\x00"), Fld("has_name")))]), 5, 6, "D", "seq", "opt", "data", "delim")
add("d_matrix", Decl("Matrix", [("rows", Bits(2)), ("pad", Bits(2)), ("columns", Bits(2)), ("pad2", Bits(2)),
                                ("values", Seq(Int(1), count=Ex("rows * columns")))]), 5, 7, "D", "seq", "count", "expr")
add("d_address", Decl("Address", [("ip_address", Seq(Int(1), count=4)),
                                  ("domain_name", Opt(Data(until=b"\x00"), Ex("(ip_address[:3] == [0, 0, 0]) & (ip_address[3] != 0)")))]),
    6, 7, "D", "seq", "opt", "data", "delim", "expr")
add("d_token", Decl("Token", [("size", Int(1)), ("data", Data(Fn("lambda pkt, raw, offset, **k: pkt.size if pkt.size < 8 else 8")))]),
    5, 10, "D", "data", "size", "callable")

# ----------------------------------------------------------------------------- N: nesting
InnerAt = Decl("InnerAt", [("h", Int(1)), ("v", Int(1).at(2))])
MidAt = Decl("MidAt", [("m", Int(1)), ("inner", Ref(InnerAt)), ("w", Int(1).at(5))])
add("n_at_depth3", Decl("OuterAt", [("o", Int(1)), ("mid", Ref(MidAt)), ("z", Int(1))]), 8, 9, "N", "move", "at", "nest", "ref")
InnerAl = Decl("InnerAl", [("h", Int(1)), ("v", Int(1).aligned(2, "innermost-pkt"))])
add("n_align_depth2", Decl("OuterAl", [("o", Int(1)), ("i1", Ref(InnerAl)), ("i2", Ref(InnerAl))]), 7, 8,
    "N", "move", "align", "nest", "ref")
OptIn = Decl("OptIn", [("t", Bits(1)), ("p", Bits(7)), ("o", Opt(Int(1), Fld("t")))])
add("n_seq_of_opt_pkts", Decl("SeqOfOpt", [("n", Bits(2)), ("q", Bits(6)), ("s", Seq(Ref(OptIn), count=Fld("n"))), ("z", Int(1))]),
    6, 8, "N", "seq", "opt", "ref", "nest")
add("n_opt_of_ref_seq", Decl("OptOfRef", [("t", Bits(1)), ("q", Bits(7)), ("o", Opt(Ref(Bag), Fld("t"))), ("z", Int(1))]),
    5, 7, "N", "seq", "opt", "ref", "nest")
add("n_until_nested", Decl("UntilNested", [("s", Seq(Ref(Leaf1), until=Fn("lambda pkt, **k: pkt.s[-1].k == 0 or len(pkt.s) >= 3"))),
                                           ("z", Int(1))]), 4, 5, "N", "seq", "until", "ref", "nest")
add("n_seq_marker_then_aligned", Decl("SeqMarkAligned", [("n", Bits(2)), ("q", Bits(6)),
                                                         ("s", Seq(Data(until=b"\x00"), count=Fld("n"))),
                                                         ("v", Int(1).aligned(2, "innermost-pkt"))]), 5, 7,
    "N", "seq", "data", "move", "align")

# ----------------------------------------------------------------------------- P: pairs (cursor hand-over between kinds)
_PK = {
    "int3": lambda: Int(3),
    "int2sl": lambda: Int(2, True, "little"),
    "data2": lambda: Data(2),
    "mark": lambda: Data(until=b"\x00"),
    "markinc": lambda: Data(until=b"ab", include=True),
    "ref": lambda: Ref(Point),
    "seq2": lambda: Seq(Int(1), count=2),
    "al2": lambda: Int(1).aligned(2, "innermost-pkt"),
    "sh1": lambda: Int(1).shift(1),
}
for k1 in _PK:
    for k2 in _PK:
        nm = "p_%s_%s" % (k1, k2)
        add(nm, Decl("P" + k1.capitalize() + k2.capitalize(), [("h", Bits(4)), ("g", Bits(4)), ("u", _PK[k1]()), ("w", _PK[k2]())]),
            6, 7, "P", *sorted({"move"} if ("al2" in (k1, k2) or "sh1" in (k1, k2)) else set()))


# ----------------------------------------------------------------------------- G: shapes the code generator groups
add("g_run_mixed", Decl("GRunMixed", [("a", Int(2)), ("b", Int(1, True)), ("c", Int(4, endian="little")), ("d", Data(2)),
                                      ("e", Int(3)), ("f", Int(2, True, "little")), ("g", Int(8))]), 22, 23, "G", "flat")
add("g_three_little", Decl("GThreeLittle", [("a", Int(2, endian="little")), ("b", Int(4, True, "little")),
                                            ("c", Int(1, endian="little")), ("d", Int(2))]), 9, 10, "G", "flat")
add("g_var_between", Decl("GVarBetween", [("a", Int(1)), ("n", Bits(2)), ("p", Bits(6)), ("d", Data(Fld("n"))),
                                          ("b", Int(2)), ("c", Int(2, endian="little"))]), 9, 10, "G")
add("g_data_in_run", Decl("GDataInRun", [("d", Data(3)), ("a", Int(1)), ("e", Data(1)), ("b", Int(2, True))]), 7, 8, "G", "flat")
add("g_cls_little", Decl("GClsLittle", [("a", Int(2)), ("b", Int(2, endian="big")), ("c", Int(4)), ("d", Int(3))],
                         endianness="little"), 11, 12, "G", "flat")
add("g_bridge", Decl("GBridge", [("a", Int(2, endian="little")), ("d", Data(2)), ("b", Int(2, endian="big")), ("e", Data(1)),
                                 ("c", Int(4, True, "little")), ("f", Data(1)), ("g", Int(8))]), 20, 21, "G", "flat")
add("g_bridge_cls", Decl("GBridgeCls", [("d", Data(1)), ("a", Int(2)), ("e", Data(2)), ("b", Int(2, endian="big")), ("c", Int(1))],
                         endianness="little"), 8, 9, "G", "flat")
add("g_data_tail", Decl("GDataTail", [("n", Int(1)), ("d", Data(Fld("n"))), ("t", Data(2))]), 5, 6, "G", "tail")
add("g_data_alone_le", Decl("GDataAloneLe", [("a", Int(2, endian="little")), ("b", Int(2, endian="little")), ("t", Data(3))]), 7, 8,
    "G", "flat", "tail")
add("g_loops", Decl("GLoops", [("t", Bits(1)), ("n", Bits(2)), ("p", Bits(5)), ("s", Seq(Int(2), count=Fld("n"))),
                               ("o", Opt(Int(1), Fld("t"))), ("z", Int(2, endian="little")), ("y", Int(1))]), 8, 10, "G")
add("g_moves", Decl("GMoves", [("a", Int(1)), ("b", Int(2).at(2)), ("c", Int(1)), ("d", Int(2).aligned(4, "innermost-pkt"))]),
    10, 11, "G", "move")


# ----------------------------------------------------------------------------- U: user supplied defaults (C19)
UD_Inner = Decl("UDInner", [("x", Int(1, default=7)), ("y", Data(2, default=b"hi"))])
add("u_defaults", Decl("UDefaults", [("a", Int(2, default=513)), ("b", Bits(4, default=9)), ("c", Bits(4)),
                                     ("d", Data(3, default=b"abc")), ("e", Data(until=b"\x00", default=b"zz")),
                                     ("r", Ref(UD_Inner)), ("s", Seq(Int(1), count=2, default="[1, 2]")),
                                     ("o", Opt(Int(1), Ex("a == 1"), default="5"))]), 4, 5, "U")
add("u_opt_defaults", Decl("UOptDefaults", [("k", Int(1)), ("t", Opt(Int(2), Ex("k != 0"), default="7")),
                                            ("g", Opt(Data(2), Ex("k != 0"), default="b'ab'")), ("n", Opt(Int(1), Ex("k == 2")))]),
    4, 5, "U")


def get(key):
    return CAT[key]["decl"]


def select(tier, *any_tags, exclude=(), families=None):
    """entries having at least one of any_tags (all entries when none given) and none of exclude"""
    out = []
    for key, e in CAT.items():
        fam = [t for t in e["tags"] if t in ("S", "D", "N", "P", "G", "U")]
        if families is not None and not (set(fam) & set(families)):
            continue
        if "U" in fam and (families is None or "U" not in families):
            continue      # user-default declarations are only meaningful for C19
        if any_tags and not (e["tags"] & set(any_tags)):
            continue
        if e["tags"] & set(exclude):
            continue
        out.append(e)
    return out
