"""CrossHair plug-in: exact models for the three C boundaries bisturi crosses constantly.

1. struct          pack/unpack (module level and struct.Struct) for the format language
                   bisturi can emit:  [<>] ( B H I Q b h i q | <n>s )*
2. bitwise ops     & | ^ on symbolic ints, via identities that are exact for every Python int
                   (z3 Int div/mod by positive constants = floor-div / non-negative mod)
3. error messages  `template % args` with symbolic operands returns a placeholder when the
                   template occurs under a `raise` in /repo/bisturi/*.py (recomputed from the
                   AST on every run)
4. symbolic_map()  association-list map (CrossHair's ShellMutableMap over SimpleDict) used as
                   `Fragments.fragments` when positions are symbolic

`install()` must be called after `crosshair.core_and_libs` was imported.  `self_validate()`
checks the models against CPython / z3 and raises on mismatch.
"""
import ast
import glob
import operator as ops
import os
import random
import re
import struct
from typing import Union

import crosshair.core_and_libs  # noqa: F401
import z3
from crosshair import core as chcore
from crosshair.core import deep_realize, realize
from crosshair.libimpl import builtinslib as bl
from crosshair.libimpl.builtinslib import SymbolicBytes, SymbolicInt, setup_binop
from crosshair.statespace import context_statespace
from crosshair.tracers import NoTracing, ResumedTracing, is_tracing
from crosshair.util import CrossHairInternal, CrossHairValue

REPO = os.environ.get("VERIF_REPO", "/repo")

STATS = {"struct_unpack": 0, "struct_pack": 0, "and": 0, "or_xor": 0, "msg_stub": 0, "fallback_concretise": 0}

# --------------------------------------------------------------------------------------
# 1. struct
# --------------------------------------------------------------------------------------
_INT_CODES = {"B": (1, False), "H": (2, False), "I": (4, False), "Q": (8, False),
              "b": (1, True), "h": (2, True), "i": (4, True), "q": (8, True)}
_FMT_RE = re.compile(r"(\d*)([BHIQbhiqs])")


class UnsupportedFormat(Exception):
    pass


_fmt_cache = {}


def parse_fmt(fmt):
    """-> (byteorder, [(code, nbytes, signed, offset)], total).  Prefixes: '<' '>' (what bisturi emits), '=' (native order,
    standard sizes) and '@' (native order AND native alignment: padding computed with struct.calcsize)."""
    if isinstance(fmt, bytes):
        fmt = fmt.decode("latin-1")
    if not isinstance(fmt, str):
        fmt = realize(fmt)
    got = _fmt_cache.get(fmt)
    if got is not None:
        return got
    if not fmt or fmt[0] not in "<>=@":
        raise UnsupportedFormat(fmt)
    import sys as _sys
    if fmt[0] in "<>":
        order = "little" if fmt[0] == "<" else "big"
    else:
        order = _sys.byteorder
    items = []
    pos = 1
    prefix = fmt[0]
    sofar = ""
    while pos < len(fmt):
        m = _FMT_RE.match(fmt, pos)
        if not m:
            raise UnsupportedFormat(fmt)
        cnt, code = m.group(1), m.group(2)
        reps = [(code, int(cnt) if cnt else 1)] if code == "s" else [(code, None)] * (int(cnt) if cnt else 1)
        for c, n in reps:
            piece = ("%ds" % n) if c == "s" else c
            size = n if c == "s" else struct.calcsize(prefix + c)
            sofar += piece
            offset = struct.calcsize(prefix + sofar) - size
            if c == "s":
                items.append(("s", n, False, offset))
            else:
                if size != _INT_CODES[c][0]:
                    raise UnsupportedFormat(fmt)
                items.append((c, size, _INT_CODES[c][1], offset))
        pos = m.end()
    total = struct.calcsize(fmt)
    _fmt_cache[fmt] = (order, items, total)
    return _fmt_cache[fmt]


def _is_symbolic(x):
    with NoTracing():
        return isinstance(x, CrossHairValue)


def model_unpack(fmt, buf):
    order, items, total = parse_fmt(fmt)
    if not isinstance(buf, (bytes, bytearray, memoryview)):
        raise TypeError("a bytes-like object is required, not '%s'" % type(buf).__name__)
    if len(buf) != total:
        raise struct.error("unpack requires a buffer of %d bytes" % total)
    out = []
    for code, n, signed, pos in items:
        piece = buf[pos:pos + n]
        if code == "s":
            out.append(piece)
        else:
            out.append(bytes_to_int([piece[i] for i in range(n)], order == "little", signed))
    STATS["struct_unpack"] += 1
    return tuple(out)


_BATTR = "_verif_bytes"   # (bytes least-significant first, n, signed) for ints decoded from bytes


def bytes_to_int(items, little, signed):
    """Positional value of a list of byte values (ints in 0..255, symbolic or not)."""
    n = len(items)
    lsf = list(items) if little else list(reversed(items))
    val = 0
    for byt in reversed(lsf):
        val = val * 256 + byt
    if signed and n:
        if lsf[-1] >= 128:
            val = val - (1 << (8 * n))
    with NoTracing():
        if isinstance(val, SymbolicInt):
            try:
                setattr(val, _BATTR, (tuple(lsf), n, bool(signed)))
                if not signed:
                    setattr(val, _RATTR, BitRep.of_bytes_lsf(
                        [x.var if isinstance(x, SymbolicInt) else z3.IntVal(int(x)) for x in lsf]))
            except Exception:
                pass
    return val


def int_to_byte_list(v, n, little, signed, err):
    """The n bytes (in memory order) of integer v; `err(kind)` builds the exception for a value that is
    not representable.  For a symbolic v the bytes are fresh solver variables b_i constrained by
    0 <= b_i <= 255 and v (+ 256**n if negative) == sum b_i 256**i  - a definitional extension that is
    satisfiable for exactly one choice of b, so it does not restrict v."""
    with NoTracing():
        tag = getattr(v, _BATTR, None) if isinstance(v, SymbolicInt) else None
        if tag is not None and tag[1] == n and tag[2] == bool(signed):
            lsf = list(tag[0])
            return lsf if little else lsf[::-1]
        rep = getattr(v, _RATTR, None) if isinstance(v, SymbolicInt) else None
        if rep is not None and not signed and rep.finite_below(8 * n):
            lsf = []
            for i in range(n):
                lsf.append(_mk(BitRep(rep.extract(8 * i, 8 * i + 8), None)))
            return lsf if little else lsf[::-1]
    if signed:
        lo, hi = -(1 << (8 * n - 1)), (1 << (8 * n - 1)) - 1
    else:
        lo, hi = 0, (1 << (8 * n)) - 1
    if v < lo:
        raise err("low")
    if v > hi:
        raise err("high")
    neg = False
    if signed:
        if v < 0:
            neg = True
    with NoTracing():
        if isinstance(v, SymbolicInt):
            # bytes are bit slices of v (of v + 256**n for a negative v): bits [8i, 8i+8)
            target = v.var + z3.IntVal(1 << (8 * n)) if neg else v.var
            rep = getattr(v, _RATTR, None)
            if rep is None or neg:
                rep = BitRep.of_term(target)
            lsf = [_mk(BitRep(rep.extract(8 * i, 8 * i + 8), None)) for i in range(n)]
        else:
            u = int(v) + (1 << (8 * n)) if neg else int(v)
            lsf = [(u >> (8 * i)) & 255 for i in range(n)]
    return lsf if little else lsf[::-1]


def _int_to_bytes(v, n, order, signed):
    """exact CPython struct semantics for integer codes (standard sizes)."""
    if isinstance(v, bool) or not isinstance(v, int):
        if hasattr(v, "__index__") and not isinstance(v, float):
            v = v.__index__()
        else:
            raise struct.error("required argument is not an integer")

    def err(kind):
        return struct.error("argument out of range")
    return int_to_byte_list(v, n, order == "little", signed, err)


def _bytes_from_parts(parts):
    with NoTracing():
        if any(isinstance(p, SymbolicInt) for p in parts):
            return SymbolicBytes(list(parts))
        return bytes(parts)


def _p_int_from_bytes(b, byteorder="big", *, signed=False):
    if not isinstance(byteorder, str):
        raise TypeError("from_bytes() argument 'byteorder' must be str")
    if byteorder == "big":
        little = False
    elif byteorder == "little":
        little = True
    else:
        raise ValueError("byteorder must be either 'little' or 'big'")
    if not isinstance(b, (bytes, bytearray, memoryview)):
        b = bytes(b)
    n = realize(len(b))
    return bytes_to_int([b[i] for i in range(n)], little, bool(signed))


def _symint_to_bytes(self, length=1, byteorder="big", *, signed=False):
    if not isinstance(length, int):
        raise TypeError
    if not isinstance(byteorder, str):
        raise TypeError
    length = realize(length)
    if length < 0:
        raise ValueError("length argument must be non-negative")
    byteorder = realize(byteorder)
    if byteorder not in ("big", "little"):
        raise ValueError("byteorder must be either 'little' or 'big'")

    def err(kind):
        if kind == "low" and not signed:
            return OverflowError("can't convert negative int to unsigned")
        return OverflowError("int too big to convert")
    parts = int_to_byte_list(self, length, byteorder == "little", bool(signed), err)
    return _bytes_from_parts(parts)


def model_pack(fmt, *vals):
    order, items, total = parse_fmt(fmt)
    if len(vals) != len(items):
        raise struct.error("pack expected %d items for packing (got %d)" % (len(items), len(vals)))
    out = b""
    cur = 0
    for (code, n, signed, pos), v in zip(items, vals):
        if pos > cur:
            out = out + b"\x00" * (pos - cur)      # native alignment padding ('@' only)
        cur = pos + n
        if code == "s":
            if not isinstance(v, (bytes, bytearray)):
                raise struct.error("argument for 's' must be a bytes object")
            lv = len(v)
            if lv >= n:
                piece = v[:n]
            else:
                piece = v + b"\x00" * (n - lv)
            out = out + piece
        else:
            out = out + _bytes_from_parts(_int_to_bytes(v, n, order, signed))
    if total > cur:
        out = out + b"\x00" * (total - cur)
    STATS["struct_pack"] += 1
    return out


def _p_struct_unpack(fmt, buf):
    return model_unpack(fmt, buf)


def _p_struct_pack(fmt, *vals):
    return model_pack(fmt, *vals)


def _p_Struct_unpack(self, buf):
    return model_unpack(self.format, buf)


def _p_Struct_pack(self, *vals):
    return model_pack(self.format, *vals)


def model_iter_unpack(fmt, buf):
    order, items, total = parse_fmt(fmt)
    if total == 0:
        raise struct.error("cannot iteratively unpack with a struct of length 0")
    n = len(buf)
    if n % total != 0:
        raise struct.error("iterative unpacking requires a buffer of a multiple of %d bytes" % total)
    out = []
    pos = 0
    while pos < n:
        out.append(model_unpack(fmt, buf[pos:pos + total]))
        pos += total
    return iter(out)


def _p_struct_iter_unpack(fmt, buf):
    return model_iter_unpack(fmt, buf)


def _p_Struct_iter_unpack(self, buf):
    return model_iter_unpack(self.format, buf)


# --------------------------------------------------------------------------------------
# 2. bitwise operators
# --------------------------------------------------------------------------------------
# Every symbolic int may carry a bit-slice representation (vlib/bitrep.py) on the SymbolicInt *object*;
# masks, shifts and merges of disjoint values re-index slices instead of asking z3 to reason about
# nested div/mod.  Values without a tag have the trivial representation.
from vlib.bitrep import BitRep, runs_of_ones as _runs_of_ones  # noqa: E402

_RATTR = "_verif_bitrep"


def _rep(x):
    if isinstance(x, SymbolicInt):
        r = getattr(x, _RATTR, None)
        return r if r is not None else BitRep.of_term(x.var)
    return BitRep.of_const(int(x))


def _mk(rep):
    if not rep.slices and rep.top is None:
        return 0
    if rep.top is None and all(z3.is_int_value(base) for _, _, base, _, _ in rep.slices):
        return z3.simplify(rep.term()).as_long()
    r = SymbolicInt(rep.term())
    if not rep.is_trivial():
        try:
            setattr(r, _RATTR, rep)
        except Exception:
            pass
    return r


def _and_const_smt(xvar, m):
    """z3 term for (x & m), m a Python int; exact for every integer x."""
    return BitRep.of_term(xvar).and_const(m).term()


def _h_and(op, a: Union[SymbolicInt, int], b: Union[SymbolicInt, int]):
    with NoTracing():
        STATS["and"] += 1
        a_sym, b_sym = isinstance(a, SymbolicInt), isinstance(b, SymbolicInt)
        if a_sym and b_sym:
            if _rep(a).disjoint(_rep(b)):
                return 0
            r = _rep(a).bitwise(_rep(b), "and")
            if r is not None:
                return _mk(r)
            STATS["fallback_concretise"] += 1
            return realize(a) & realize(b)
        if not a_sym and not b_sym:
            return a & b
        x, c = (a, int(b)) if a_sym else (b, int(a))
        if c == 0:
            return 0
        if c == -1:
            return x
        return _mk(_rep(x).and_const(c))


def _h_or_xor(op, a: Union[SymbolicInt, int], b: Union[SymbolicInt, int]):
    with NoTracing():
        STATS["or_xor"] += 1
        a_sym, b_sym = isinstance(a, SymbolicInt), isinstance(b, SymbolicInt)
        if not a_sym and not b_sym:
            return op(a, b)
        ra, rb = _rep(a), _rep(b)
        if ra.disjoint(rb):
            return _mk(ra.merge(rb))
        if a_sym and b_sym:
            r = ra.bitwise(rb, "or" if op is ops.or_ else "xor")
            if r is not None:
                return _mk(r)
            STATS["fallback_concretise"] += 1
            return op(realize(a), realize(b))
        x, c = (a, int(b)) if a_sym else (b, int(a))
        # x | c = x + c - (x & c);  x ^ c = x + c - 2 (x & c)
        both = _rep(x).and_const(c).term()
        k = 1 if op is ops.or_ else 2
        return SymbolicInt(x.var + z3.IntVal(c) - k * both)


def _h_shift(op, a: Union[SymbolicInt, int], b: int):
    """symbolic value, concrete shift count"""
    with NoTracing():
        if not isinstance(a, SymbolicInt):
            return op(a, b)
        if b < 0:
            raise ValueError("negative shift count")
        if b == 0:
            return a
        return _mk(_rep(a).shl(b) if op is ops.lshift else _rep(a).shr(b))


def _h_divmod_const(op, a: SymbolicInt, b: int):
    """x // c and x % c for a concrete c > 0 need no case split on the sign of x:
    z3's Int div/mod with positive divisor are floor division / non-negative remainder."""
    with NoTracing():
        if b > 0:
            if b & (b - 1) == 0:
                k = b.bit_length() - 1
                return _mk(_rep(a).shr(k) if op is ops.floordiv else _rep(a).and_const(b - 1))
            if op is ops.floordiv:
                return SymbolicInt(a.var / z3.IntVal(b))
            return SymbolicInt(a.var % z3.IntVal(b))
        return SymbolicInt(bl.apply_smt(op, a.var, z3.IntVal(b)))


def _h_add(op, a: Union[SymbolicInt, int], b: Union[SymbolicInt, int]):
    """a + b: values with disjoint bit-slice representations merge structurally"""
    with NoTracing():
        a_sym, b_sym = isinstance(a, SymbolicInt), isinstance(b, SymbolicInt)
        if not a_sym and not b_sym:
            return a + b
        if (a_sym and getattr(a, _RATTR, None) is not None) or (b_sym and getattr(b, _RATTR, None) is not None):
            if not a_sym and a == 0:
                return b
            if not b_sym and b == 0:
                return a
            ra, rb = _rep(a), _rep(b)
            if not (ra.is_trivial() or rb.is_trivial()) and ra.disjoint(rb):
                return _mk(ra.merge(rb))
        av = a.var if a_sym else z3.IntVal(int(a))
        bv = b.var if b_sym else z3.IntVal(int(b))
        return SymbolicInt(av + bv)


def _h_mul_const(op, a: Union[SymbolicInt, int], b: Union[SymbolicInt, int]):
    """x * 2**k re-indexes slices (keeps values built with * and + as structured as those built with << and |)"""
    with NoTracing():
        a_sym, b_sym = isinstance(a, SymbolicInt), isinstance(b, SymbolicInt)
        if a_sym and b_sym:
            return SymbolicInt(a.var * b.var)
        if not a_sym and not b_sym:
            return a * b
        x, c = (a, int(b)) if a_sym else (b, int(a))
        if c == 0:
            return 0
        if c == 1:
            return x
        if c > 0 and c & (c - 1) == 0:
            return _mk(_rep(x).shl(c.bit_length() - 1))
        return SymbolicInt(x.var * z3.IntVal(c))


def _h_eq_ne(op, a: Union[SymbolicInt, int], b: Union[SymbolicInt, int]):
    """values whose normalised representations coincide are equal without asking the solver"""
    with NoTracing():
        a_sym, b_sym = isinstance(a, SymbolicInt), isinstance(b, SymbolicInt)
        if not a_sym and not b_sym:
            return op(a, b)
        ta = getattr(a, _RATTR, None) if a_sym else None
        tb = getattr(b, _RATTR, None) if b_sym else None
        if ta is not None and tb is not None and ta.same_as(tb):
            return op is ops.eq
        av = a.var if a_sym else z3.IntVal(int(a))
        bv = b.var if b_sym else z3.IntVal(int(b))
        return bl.SymbolicBool(av == bv if op is ops.eq else av != bv)


# --------------------------------------------------------------------------------------
# 3. error-message formatting
# --------------------------------------------------------------------------------------
def raise_site_templates(repo=REPO):
    """String constants used as the left operand of `%` somewhere under a `raise` statement
    (or inside an `assert` message) in bisturi's sources."""
    out = set()
    for path in sorted(glob.glob(os.path.join(repo, "bisturi", "*.py"))):
        try:
            tree = ast.parse(open(path).read())
        except SyntaxError:
            continue
        for node in ast.walk(tree):
            if isinstance(node, ast.Raise):
                for sub in ast.walk(node):
                    if isinstance(sub, ast.BinOp) and isinstance(sub.op, ast.Mod) \
                            and isinstance(sub.left, ast.Constant) and isinstance(sub.left.value, str):
                        out.add(sub.left.value)
    return out


_TEMPLATES = set()
_orig_str_mod = None


def _contains_symbolic(x):
    with NoTracing():
        if isinstance(x, CrossHairValue):
            return True
        if isinstance(x, (tuple, list)):
            return any(_contains_symbolic(i) for i in x)
        if isinstance(x, dict):
            return any(_contains_symbolic(i) for i in x.values())
        return False


def _p_str_mod(self, other):
    with NoTracing():
        stub = isinstance(self, str) and self in _TEMPLATES and _contains_symbolic(other)
    if stub:
        STATS["msg_stub"] += 1
        return "<message with symbolic operands elided>"
    if not isinstance(self, str):
        raise TypeError
    other = deep_realize(other)
    with NoTracing():
        return str.__mod__(realize(self), other)


STUB_FORMAT = [False]
_orig_format = None


def _stub_render(obj):
    with NoTracing():
        sym = isinstance(obj, CrossHairValue)
        plain = type(obj) in (int, float, bytes, str, bool, type(None))
        seq = type(obj) in (list, tuple)
    if sym:
        STATS["msg_stub"] += 1
        return "<symbolic>"
    if plain:
        return repr(obj)
    if seq:
        return "[" + ", ".join([_stub_render(x) for x in obj]) + "]"
    return obj.__repr__()      # user classes: their own (traced) __repr__, nested f-strings come back here


def _p_format(obj, format_spec=""):
    """format(value, spec) as used by f-strings: while a harness holds STUB_FORMAT (it is checking that
    rendering does not raise, not what it renders) symbolic operands are not realised"""
    if STUB_FORMAT[0] and format_spec == "":
        return _stub_render(obj)
    return _orig_format(obj, format_spec)


# --------------------------------------------------------------------------------------
# 4. symbolic-key map
# --------------------------------------------------------------------------------------
def symbolic_map():
    from crosshair.libimpl.builtinslib import ShellMutableMap
    from crosshair.simplestructs import SimpleDict
    return ShellMutableMap(SimpleDict([]))


# --------------------------------------------------------------------------------------
_installed = False


def install():
    global _installed, _orig_str_mod, _TEMPLATES
    if _installed:
        return
    reg = chcore._PATCH_REGISTRATIONS
    reg[struct.unpack] = _p_struct_unpack
    reg[struct.pack] = _p_struct_pack
    reg[struct.Struct.unpack] = _p_Struct_unpack
    reg[struct.Struct.pack] = _p_Struct_pack
    reg[struct.iter_unpack] = _p_struct_iter_unpack
    reg[struct.Struct.iter_unpack] = _p_Struct_iter_unpack
    reg[int.from_bytes] = _p_int_from_bytes
    SymbolicInt.to_bytes = _symint_to_bytes
    _orig_str_mod = reg.get(str.__mod__)
    _TEMPLATES = raise_site_templates()
    reg[str.__mod__] = _p_str_mod
    global _orig_format
    _orig_format = reg.get(format)
    if _orig_format is not None:
        reg[format] = _p_format
    setup_binop(_h_and, {ops.and_})
    setup_binop(_h_or_xor, {ops.or_, ops.xor})
    setup_binop(_h_shift, {ops.lshift, ops.rshift})
    setup_binop(_h_divmod_const, {ops.floordiv, ops.mod})
    setup_binop(_h_add, {ops.add})
    setup_binop(_h_mul_const, {ops.mul})
    setup_binop(_h_eq_ne, {ops.eq, ops.ne})
    bl._BIN_OPS.clear()
    _installed = True


# --------------------------------------------------------------------------------------
# 5. self validation
# --------------------------------------------------------------------------------------
def _bv_lemmas():
    """The integer identities behind the handlers, proved as bit-vector lemmas (width 64)."""
    W = 64
    x, y = z3.BitVecs("x y", W)
    proved = 0
    lemmas = []
    # runs-of-ones decomposition of x & m for a few structured masks
    for m in (0x0ff0, 0xf00f, 0x00ffff00, 0x8001, 0x7f, 0x5a5a):
        total = z3.BitVecVal(0, W)
        for s, w in _runs_of_ones(m):
            total = total + z3.URem(z3.LShR(x, s), z3.BitVecVal(1 << w, W)) * z3.BitVecVal(1 << s, W)
        # valid for non-negative x (LShR == floor div); the negative case is covered by the
        # concrete comparison below because BV division differs from floor division there
        lemmas.append(z3.Implies(x >= 0, (x & z3.BitVecVal(m, W)) == total))
    c = z3.BitVec("c", W)
    lemmas.append((x | c) == x + c - (x & c))
    lemmas.append((x ^ c) == x + c - 2 * (x & c))
    lemmas.append((x & c) == x - (x & ~c))
    lemmas.append(z3.Implies((x & y) == 0, z3.And((x | y) == x + y, (x ^ y) == x + y)))
    for lem in lemmas:
        s = z3.Solver()
        s.set(timeout=20000)
        s.add(z3.Not(lem))
        r = s.check()
        if str(r) != "unsat":
            raise AssertionError("plug-in lemma not proved: %s -> %s" % (lem, r))
        proved += 1
    return proved


def _int_eval(expr):
    return z3.simplify(expr).as_long()


def self_validate(seed=0):
    """Compare the models with CPython on boundary and seeded values. Returns a summary dict."""
    rnd = random.Random(seed)
    n_struct = n_bits = 0
    # --- struct (run concretely: the model functions are ordinary Python on concrete values)
    fmts = ["<B", ">H", "<I", ">Q", "<b", ">h", "<i", ">q", ">2sB", "<3sH", ">BHIQ", "<bhiq", ">B4sH", "<0sB", ">1s",
            ">HH", "<QB", "@BH", "@BHiQ", "=BHiQ", "@HBI", "@B3sH", "=hB", "@QB"]
    for fmt in fmts:
        order, items, total = parse_fmt(fmt)
        for _ in range(40):
            raw = bytes(rnd.randrange(256) for _ in range(total))
            if rnd.random() < 0.3:
                raw = rnd.choice([b"\x00" * total, b"\xff" * total, b"\x80" + b"\x00" * (total - 1) if total else b"",
                                  b"\x7f" + b"\xff" * (total - 1) if total else b""])
            assert model_unpack(fmt, raw) == struct.unpack(fmt, raw), (fmt, raw)
            vals = struct.unpack(fmt, raw)
            assert bytes(model_pack(fmt, *vals)) == struct.pack(fmt, *vals), (fmt, vals)
            if total:
                assert list(model_iter_unpack(fmt, raw * 3)) == list(struct.iter_unpack(fmt, raw * 3)), fmt
            n_struct += 2
        for bad_len in (total - 1, total + 1):
            if bad_len < 0:
                continue
            for f in (model_unpack, struct.unpack):
                try:
                    f(fmt, b"\x01" * bad_len)
                    raise AssertionError("length not checked")
                except struct.error:
                    pass
        # out of range / wrong type on pack
        for idx, (code, n, signed, _off) in enumerate(items):
            base = list(struct.unpack(fmt, b"\x00" * total))
            cands = [b"xy", None, 1.5, "1"] if code != "s" else [1, None, "ab", b"", b"abcdefgh"]
            if code != "s":
                lo = -(1 << (8 * n - 1)) if signed else 0
                hi = (1 << (8 * n - 1)) - 1 if signed else (1 << (8 * n)) - 1
                cands += [lo - 1, hi + 1, lo, hi, -1, 1 << 70, -(1 << 70), True]
            for cv in cands:
                vals = list(base)
                vals[idx] = cv
                try:
                    want = struct.pack(fmt, *vals)
                except struct.error:
                    want = "error"
                try:
                    got = bytes(model_pack(fmt, *vals))
                except struct.error:
                    got = "error"
                assert got == want, (fmt, vals, got, want)
                n_struct += 1
    # --- bit identities on concrete values via z3 evaluation of the same terms
    vals = [0, 1, -1, 255, 256, -256, 0x12345678, -0x12345678, (1 << 70) + 12345, -(1 << 70) - 12345]
    vals += [rnd.randrange(-(1 << 40), 1 << 40) for _ in range(30)]
    masks = [0, 1, 0xf0, 0x0ff0, 0xf00f, 0xffff00, 0x8001, (1 << 33) - 1, -1, -16, ~0x0ff0, ~0xf00f, -0x8000]
    masks += [rnd.randrange(-(1 << 20), 1 << 20) for _ in range(20)]
    for v in vals:
        for m in masks:
            xv = z3.IntVal(v)
            if m >= 0:
                got = _int_eval(_and_const_smt(xv, m)) if m else 0
            else:
                got = _int_eval(xv - _and_const_smt(xv, ~m))
            assert got == (v & m), ("and", v, m, got)
            if m > 0:
                both = _int_eval(_and_const_smt(xv, m))
            elif m < 0:
                both = v - _int_eval(_and_const_smt(xv, ~m))
            else:
                both = 0
            assert v + m - both == (v | m), ("or", v, m)
            assert v + m - 2 * both == (v ^ m), ("xor", v, m)
            n_bits += 3
        for c in (1, 2, 3, 7, 8, 255, 256, 1000):
            assert _int_eval(z3.IntVal(v) / z3.IntVal(c)) == v // c
            assert _int_eval(z3.IntVal(v) % z3.IntVal(c)) == v % c
            n_bits += 2
    # Z-tag algebra: disjoint supports
    for _ in range(200):
        m1 = rnd.randrange(1 << 16)
        m2 = rnd.randrange(1 << 16) & ~m1
        a = rnd.randrange(-(1 << 20), 1 << 20) & m1
        b = rnd.randrange(-(1 << 20), 1 << 20) & m2
        assert (a | b) == a + b and (a ^ b) == a + b and (a & b) == 0
        n_bits += 1
    from vlib import bitrep
    n_bits += bitrep.validate(seed, 300)
    from vlib import symraw
    n_seq = symraw.validate(seed)
    lem = _bv_lemmas()
    return {"struct_cases": n_struct, "bit_cases": n_bits, "bv_lemmas_proved": lem, "slice_cases": n_seq,
            "templates": len(raise_site_templates())}


if __name__ == "__main__":
    print(self_validate())
