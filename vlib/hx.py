"""Helpers usable inside harness functions, both under CrossHair and in concrete replay."""


class AssumeFailed(Exception):
    """Raised in concrete replay when the arguments lie outside the obligation's bound."""


def _under_crosshair():
    try:
        from crosshair.tracers import is_tracing  # noqa
        from crosshair.statespace import optional_context_statespace
        return optional_context_statespace() is not None
    except Exception:
        return False


def assume(cond):
    """The obligation's bound / precondition: prune this path unless `cond` holds."""
    if cond:
        return
    try:
        from crosshair.statespace import optional_context_statespace
        from crosshair.util import IgnoreAttempt
        has_space = optional_context_statespace() is not None
    except Exception:
        has_space = False
    if has_space:
        raise IgnoreAttempt("assume")
    raise AssumeFailed()


def exc_sig(e):
    """A compact description of an exception (type only; messages may hold symbolic operands)."""
    return type(e).__name__


def fix(raw, length):
    """assume len(raw) == length and (under CrossHair) re-wrap the input so that slices with symbolic
    bounds stay symbolic (vlib/symraw.py); a no-op on concrete bytes"""
    assume(len(raw) == length)
    try:
        from crosshair.statespace import optional_context_statespace
        if optional_context_statespace() is None:
            return raw
    except Exception:
        return raw
    from vlib.symraw import fix as _fix
    return _fix(raw, length)


def total_repr(obj):
    """repr(obj) for totality checks: under CrossHair the formatting of symbolic leaf values is stubbed
    (the subject is that rendering does not raise, not the rendered digits)"""
    try:
        from crosshair.statespace import optional_context_statespace
        active = optional_context_statespace() is not None
    except Exception:
        active = False
    if not active:
        return repr(obj)
    from vlib import plugin
    plugin.STUB_FORMAT[0] = True
    try:
        return repr(obj)
    finally:
        plugin.STUB_FORMAT[0] = False
