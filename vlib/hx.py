"""Helpers usable inside harness functions, both under CrossHair and in concrete replay."""


class AssumeFailed(Exception):
    """Raised in concrete replay when the arguments lie outside the obligation's bound."""


def _under_crosshair():
    try:
        from crosshair.tracers import is_tracing  # noqa
        from crosshair.statespace import optional_context_statespace
        return optional_context_statespace() is not None
    except Exception:
        return False


def assume(cond):
    """The obligation's bound / precondition: prune this path unless `cond` holds."""
    if cond:
        return
    try:
        from crosshair.statespace import optional_context_statespace
        from crosshair.util import IgnoreAttempt
        has_space = optional_context_statespace() is not None
    except Exception:
        has_space = False
    if has_space:
        raise IgnoreAttempt("assume")
    raise AssumeFailed()


def exc_sig(e):
    """A compact description of an exception (type only; messages may hold symbolic operands)."""
    return type(e).__name__
