"""Differential harness bodies: the real bisturi class against the reference model on the same
(symbolic) input.  Each function returns "ok:<tag>" or a failure text carrying `sig=<signature>`."""
from bisturi.packet import PacketError

from vlib import refmodel as R
from vlib.hx import total_repr
from vlib import spec as S


def run_real(cls, raw, off):
    p = cls(_initialize_fields=False)
    try:
        end = p.unpack_impl(raw, off, root=p)
    except PacketError as e:
        return None, None, e
    return p, end, None


def run_ref(spec, raw, off):
    try:
        return R.ref_unpack(spec, raw, off), None
    except R.Reject as e:
        return None, e


def _field_desc(spec, rej):
    """kind of the reference field that rejected (for signatures)"""
    off, fname, cname = rej.path[0] if rej.path else rej.leaf
    decls = [spec] + spec.subdecls()
    for d in decls:
        if d.name == cname:
            for n, f in d.fields:
                if n == fname:
                    k = type(f).__name__
                    if isinstance(f, S.Int):
                        k += "%d" % f.n
                    if isinstance(f, (S.Seq, S.Opt)):
                        k += "(" + type(f.elem).__name__ + ")"
                    return k
    return "?"


def equiv(spec, cls, raw, off, key, prop):
    """accept/reject, values and end offset agree with the reference"""
    ref, rej = run_ref(spec, raw, off)
    p, end, err = run_real(cls, raw, off)
    if p is None and ref is None:
        return "ok:rejected", None, None
    if p is None:
        return "FAIL sig=%s|valid-input-rejected|%s reference accepted with %r" % (prop, key, R.plain(ref.values)), None, None
    if ref is None:
        return ("FAIL sig=%s|over-accept|%s|%s|%s real=%r" % (prop, key, _field_desc(spec, rej), rej.why.replace(" ", "-"),
                                                             R.observe(p, spec))), None, None
    got, want = R.observe(p, spec), R.plain(ref.values)
    if got != want:
        return "FAIL sig=%s|wrong-values|%s got=%r want=%r" % (prop, key, got, want), None, None
    if end != ref.end:
        return "FAIL sig=%s|wrong-end-offset|%s got=%r want=%r" % (prop, key, end, ref.end), None, None
    return None, p, ref


def h_equiv(spec, cls, raw, off, key, prop):
    r, p, ref = equiv(spec, cls, raw, off, key, prop)
    if r is not None:
        return r
    return "ok:accepted"


def h_strict(spec, cls, raw, off, key):
    """C04: real accepts => the strict reference accepts with the same values; silent=True <=> raises"""
    ref, rej = run_ref(spec, raw, off)
    p, end, err = run_real(cls, raw, off)
    quiet = cls.unpack(raw, off, silent=True)
    if (quiet is None) != (p is None):
        return "FAIL sig=C04|silent-mode-disagrees|%s" % key
    if p is None:
        return "ok:rejected"
    if ref is None:
        return "FAIL sig=C04|over-accept|%s|%s|%s real=%r" % (key, _field_desc(spec, rej), rej.why.replace(" ", "-"),
                                                           R.observe(p, spec))
    got, want = R.observe(p, spec), R.plain(ref.values)
    if got != want:
        return "FAIL sig=C04|fabricated-values|%s got=%r want=%r" % (key, got, want)
    return "ok:accepted"


def _overlaps(consumed):
    n = len(consumed)
    for i in range(n):
        a1, b1 = consumed[i]
        for j in range(i + 1, n):
            a2, b2 = consumed[j]
            if a1 < b2 and a2 < b1:
                return True
    return False


def h_roundtrip(spec, cls, raw, off, key, absolute_nonzero=False):
    """C01: pack(unpack(raw, off)) reproduces every consumed byte, '.' elsewhere, no longer than traversed"""
    r, p, ref = equiv(spec, cls, raw, off, key, "C01")
    if r is not None:
        if r.startswith("ok:"):
            return r
        # acceptance / value disagreements belong to C04/C06/C08; without the reference's consumed intervals only the
        # part of C01 that needs no oracle is checked: the output cannot be longer than what was there to traverse
        p, end, err = run_real(cls, raw, off)
        if p is not None:
            try:
                out = p.pack()
            except PacketError:
                return "ok:not-comparable"
            if len(out) > len(raw) - off:
                return "FAIL sig=C01|longer-than-input|%s out=%r raw=%r off=%r" % (key, out, raw, off)
        return "ok:not-comparable"
    tag = ""
    overl = _overlaps(ref.consumed)
    if absolute_nonzero:
        # declarations positioned relative to the start of the data, parsed at a non-zero start offset: any
        # discrepancy is the known class "pack() cannot know the original offset" (finding F9)
        return _roundtrip_abs(p, ref, raw, off, overl)
    try:
        out = p.pack()
    except PacketError as e:
        if overl:
            return "ok:overlap-rejected"
        return "FAIL sig=C01|pack-raised-without-overlap%s|%s consumed=%r msg=%s" % (
            tag, key, ref.consumed, str(e.original_error_message)[:80])
    if overl:
        return "FAIL sig=C01|overlap-silently-packed%s|%s consumed=%r out=%r" % (tag, key, ref.consumed, out)
    span = ref.furthest - off
    if len(out) > span:
        return "FAIL sig=C01|longer-than-traversed%s|%s out=%r span=%r" % (tag, key, out, span)
    # expected image: '.' everywhere, consumed bytes copied
    ext = 0
    for a, b in ref.consumed:
        if b - off > ext:
            ext = b - off
    for i in range(len(out)):
        pos = off + i
        inside = False
        for a, b in ref.consumed:
            if a <= pos < b:
                inside = True
                break
        want = raw[pos] if inside else 46
        if out[i] != want:
            return "FAIL sig=C01|byte-differs%s|%s index=%d out=%r raw=%r off=%r consumed=%r" % (
                tag, key, i, out, raw, off, ref.consumed)
    if len(out) < ext:
        return "FAIL sig=C01|consumed-bytes-missing%s|%s out=%r consumed=%r" % (tag, key, out, ref.consumed)
    return "ok:accepted"


def _err_obs(e, shift):
    """observable part of a PacketError: phase + stack with offsets shifted"""
    return (e.was_error_found_in_unpacking_phase,
            [(o - shift, n, c) for (o, n, c) in e.fields_stack])


def h_context(spec, cls, raw, off, key, readtoend=False, regex_ext=False):
    """C14: unpack(big, off) == unpack(big[off:], 0); and the result is unchanged when everything after the parsed
    region is cut away (the tail of `big` is arbitrary, so this is 'unchanged by any appended bytes'); the arbitrary
    prefix is big[:off].  Error stacks must agree with offsets shifted by `off`."""
    p1, end1, err1 = run_real(cls, raw, off)
    cut = raw[off:]
    p2, end2, err2 = run_real(cls, cut, 0)
    if (p1 is None) != (p2 is None):
        return "FAIL sig=C14|prefix-changes-acceptance|%s" % key
    if p1 is None:
        a, b = _err_obs(err1, off), _err_obs(err2, 0)
        if a != b:
            return "FAIL sig=C14|error-location-not-shifted-by-offset|%s with_offset=%r sliced=%r" % (key, a, b)
        return "ok:rejected"
    o1, o2 = R.observe(p1, spec), R.observe(p2, spec)
    if o1 != o2:
        return "FAIL sig=C14|prefix-changes-values|%s %r vs %r" % (key, o1, o2)
    if end1 - off != end2:
        return "FAIL sig=C14|end-offset-not-shifted|%s %r vs %r" % (key, end1, end2)
    if readtoend or regex_ext:
        return "ok:accepted"
    # bytes after the parsed region do not matter; the region reaches to the furthest position traversed
    # (positioned fields may leave the final cursor before bytes that were read), taken from the reference
    ref, rej = run_ref(spec, raw, off)
    if ref is None or ref.end != end1:
        return "ok:accepted-not-comparable"
    far = ref.furthest
    p3, end3, err3 = run_real(cls, raw[:far], off)
    if p3 is None:
        return "FAIL sig=C14|suffix-needed-for-acceptance|%s end=%r furthest=%r" % (key, end1, far)
    if R.observe(p3, spec) != o1 or end3 != end1:
        return "FAIL sig=C14|suffix-changes-result|%s" % key
    return "ok:accepted"


def h_positions(spec, cls, raw, off, key):
    """C10 packet level: offsets at which fields are read == offsets of their bytes in pack() output relative to the
    same reference point; skipped bytes ignored on input and '.' on output.  Uses the reference's consumed intervals
    (where the declaration says each field lives) and bisturi's own pack()."""
    r, p, ref = equiv(spec, cls, raw, off, key, "C10")
    if r is not None:
        return r
    if _overlaps(ref.consumed):
        return "ok:overlap"
    try:
        out = p.pack()
    except PacketError as e:
        return "FAIL sig=C10|pack-raised|%s consumed=%r" % (key, ref.consumed)
    for a, b in ref.consumed:
        if out[a - off:b - off] != raw[a:b]:
            return "FAIL sig=C10|field-bytes-at-different-position|%s interval=%r out=%r raw=%r off=%r" % (
                key, (a, b), out, raw, off)
    # holes
    for i in range(len(out)):
        pos = off + i
        inside = False
        for a, b in ref.consumed:
            if a <= pos < b:
                inside = True
                break
        if not inside and out[i] != 46:
            return "FAIL sig=C10|skipped-byte-not-filled|%s index=%d out=%r" % (key, i, out)
    # the encoder of the reference (declared positions) agrees byte for byte
    try:
        want = R.ref_pack(spec, ref.values)
    except R.Reject:
        return "ok:accepted"
    if out != want:
        return "FAIL sig=C10|differs-from-declared-layout|%s out=%r want=%r" % (key, out, want)
    return "ok:accepted"


def _roundtrip_abs(p, ref, raw, off, overl):
    sig = "FAIL sig=C01|begins-reference-with-nonzero-offset"
    try:
        out = p.pack()
    except PacketError:
        return "ok:overlap-rejected" if overl else sig
    if overl or len(out) > ref.furthest - off:
        return sig
    for i in range(len(out)):
        pos = off + i
        inside = False
        for a, b in ref.consumed:
            if a <= pos < b:
                inside = True
                break
        if out[i] != (raw[pos] if inside else 46):
            return sig
    return "ok:accepted"


def _is_run_member(f, first):
    # a positioned field may START a run (its Move pseudo-field precedes the run) but cannot sit inside one
    return (first or f.move is None) and ((isinstance(f, S.Int) and f.n in (1, 2, 4, 8)) or
                                          (isinstance(f, S.Data) and f.size is not None and f.size.kind == "const"))


def _innermost_ok(entry, want, decl, starts, generated):
    """innermost stack entry: the failing field with the offset where it begins, or (generated code) the run of
    adjacent fixed-size fields containing it with the offset where the run begins"""
    o, n, c = entry
    wo, wn, wc = want
    if c != wc:
        return False
    if n == wn:
        return o == wo
    if not generated or not (isinstance(n, str) and n.startswith("between '")):
        return False
    try:
        a = n.split("'")[1]
        b = n.split("'")[3]
    except Exception:
        return False
    names = [x for x, _ in decl.fields]
    if a not in names or b not in names or wn not in names:
        return False
    ia, ib, jf = names.index(a), names.index(b), names.index(wn)
    if not (ia <= jf <= ib and ia < ib):
        return False
    for i in range(ia, ib + 1):
        if not _is_run_member(decl.fields[i][1], i == ia):
            return False
    if "align" in decl.opts:
        return False
    return a in starts and o == starts[a]


def h_errors(spec, cls, raw, off, key, generated):
    """C12, unpack side"""
    ref, rej = run_ref(spec, raw, off)
    err = None
    try:
        p = cls.unpack(raw, off)
    except PacketError as e:
        err = e
        p = None
    except Exception as e:
        return "FAIL sig=C12|unpack-failure-not-PacketError|%s|%s" % (key, type(e).__name__)
    quiet = cls.unpack(raw, off, silent=True)
    if (quiet is None) != (p is None):
        return "FAIL sig=C12|silent-mode-disagrees|%s" % key
    if p is not None:
        return "ok:accepted"
    if rej is None:
        return "ok:not-comparable"
    if err.was_error_found_in_unpacking_phase is not True:
        return "FAIL sig=C12|wrong-phase-flag|%s" % key
    if not isinstance(getattr(err, "packet", None), cls):
        return "FAIL sig=C12|exception-without-packet|%s" % key
    stack = err.fields_stack
    want = rej.path
    if len(stack) != len(want):
        return "FAIL sig=C12|stack-depth|%s got=%r want=%r" % (key, stack, want)
    decl, starts = rej.levels[0]
    if not _innermost_ok(stack[0], want[0], decl, starts, generated):
        return "FAIL sig=C12|innermost-entry-does-not-locate-failing-field|%s got=%r want=%r" % (key, stack[0], want[0])
    for i in range(1, len(want)):
        if tuple(stack[i]) != tuple(want[i]):
            return "FAIL sig=C12|enclosing-entry|%s level=%d got=%r want=%r" % (key, i, stack[i], want[i])
    try:
        text = str(err)
    except Exception as e:
        return "FAIL sig=C12|rendering-raises|%s|%s" % (key, type(e).__name__)
    if "unpacking" not in text:
        return "FAIL sig=C12|rendering-misses-phase|%s" % key
    return "ok:rejected-located"


def h_pack_errors(spec, cls, key, generated, fname, value):
    """C12, pack side: default packet with one field set to a failing value"""
    p = cls()
    setattr(p, fname, value)
    vals = R.V(spec.name)
    for n, f in spec.fields:
        if not isinstance(f, S.Em):
            setattr(vals, n, getattr(p, n))
    layout = R.ref_layout(spec, vals)
    try:
        out = p.pack()
    except PacketError as e:
        err = e
    except Exception as e:
        return "FAIL sig=C12|pack-failure-not-PacketError|%s|%s|%s" % (key, fname, type(e).__name__)
    else:
        return "ok:packed"
    if err.was_error_found_in_unpacking_phase is not False:
        return "FAIL sig=C12|wrong-phase-flag|%s" % key
    if getattr(err, "packet", None) is not p:
        return "FAIL sig=C12|exception-without-packet|%s" % key
    if len(err.fields_stack) != 1:
        return "FAIL sig=C12|stack-depth|%s got=%r" % (key, err.fields_stack)
    want = (layout.get(fname), fname, spec.name)
    if not _innermost_ok(err.fields_stack[0], want, spec, layout, generated):
        return "FAIL sig=C12|innermost-entry-does-not-locate-failing-field|%s got=%r want=%r" % (key, err.fields_stack[0], want)
    try:
        text = str(err)
    except Exception as e:
        return "FAIL sig=C12|rendering-raises|%s|%s" % (key, type(e).__name__)
    if "packing" not in text:
        return "FAIL sig=C12|rendering-misses-phase|%s" % key
    return "ok:rejected-located"


class _Other:
    pass


def h_equality(spec, cls, other_cls, raw, off, key, d, c):
    """C20: equality is structural and total.  d: non-zero int delta, c: one extra byte value"""
    try:
        p = cls.unpack(raw, off)
    except PacketError:
        return "ok:rejected"
    q = cls.unpack(raw, off)
    try:
        if not (p == q):
            return "FAIL sig=C20|same-bytes-parse-unequal|%s" % key
        if p != q:
            return "FAIL sig=C20|ne-not-negation-of-eq|%s" % key
        if p == other_cls() or not (p != other_cls()):
            return "FAIL sig=C20|equal-to-other-class|%s" % key
        if p == 5 or p == None or not (p != b"x"):  # noqa: E711
            return "FAIL sig=C20|equal-to-non-packet|%s" % key
        text = total_repr(p)
    except Exception as e:
        return "FAIL sig=C20|comparison-or-repr-raises-%s|%s" % (type(e).__name__, key)
    if not isinstance(text, str):
        return "FAIL sig=C20|repr-malformed|%s" % key
    # changing any one value-bearing field makes the packets unequal (new value = old + d, d != 0; old + one byte)
    extra = b"!"   # appended to byte-string values (a symbolic byte here would be concretised by bytes([c]))
    for fname, f in spec.fields:
        if isinstance(f, S.Em):
            continue
        q = cls.unpack(raw, off)
        old = getattr(q, fname)
        where = fname
        if isinstance(f, (S.Int, S.Bits)):
            setattr(q, fname, old + d)
        elif isinstance(f, S.Data):
            setattr(q, fname, old + extra)
        elif isinstance(f, S.Seq):
            if isinstance(f.elem, (S.Int, S.Bits)):
                setattr(q, fname, list(old) + [d])
            elif len(old) > 0:
                setattr(q, fname, list(old)[:-1])
            else:
                continue
        elif isinstance(f, S.Opt):
            if old is None:
                setattr(q, fname, d if isinstance(f.elem, (S.Int, S.Bits)) else extra)
            else:
                setattr(q, fname, None)
        elif isinstance(f, S.Ref):
            n2, f2 = f.decl.fields[0]
            if not isinstance(f2, (S.Int, S.Bits)):
                continue
            setattr(old, n2, getattr(old, n2) + d)
            where = fname + "." + n2
        else:
            continue
        try:
            if p == q or not (p != q):
                return "FAIL sig=C20|difference-not-detected|%s|%s" % (key, where)
        except Exception as e:
            return "FAIL sig=C20|comparison-or-repr-raises-%s|%s" % (type(e).__name__, key)
    return "ok:accepted"


# ---------------------------------------------------------------------------------------------------
# building real packets from reference values (C02, C19)
# ---------------------------------------------------------------------------------------------------
def to_real(v, f, ns):
    """reference value -> value to hand to bisturi (nested V -> packet instance of the class named like its decl)"""
    if isinstance(f, S.Opt):
        return None if v is None else to_real(v, f.elem, ns)
    if isinstance(f, S.Seq):
        return [to_real(x, f.elem, ns) for x in v]
    if isinstance(v, R.V):
        decl = None
        if isinstance(f, S.Ref):
            decl = f.decl
        elif isinstance(f, S.RefSel):
            for o in list(f.options.values()) + [f.other]:
                if isinstance(o, S.Decl) and o.name == v._cname:
                    decl = o
        return build_packet(decl, v, ns, False)
    return v


def build_packet(decl, vals, ns, via_setattr):
    cls = ns[decl.name]
    kw = {}
    for fname, f in decl.fields:
        if isinstance(f, S.Em):
            continue
        kw[fname] = to_real(getattr(vals, fname), f, ns)
    if via_setattr:
        p = cls()
        for k2, v2 in kw.items():
            setattr(p, k2, v2)
        return p
    return cls(**kw)


def h_pack_parse(spec, cls, ns, raw, key):
    """C02: values taken from the reference parse of a symbolic string are consistent by construction; a packet built
    from them (constructor / attribute assignment) packs to the declared layout, re-parses completely to equal values"""
    ref, rej = run_ref(spec, raw, 0)
    if ref is None:
        return "ok:no-values"
    if _overlaps(ref.consumed):
        return "ok:overlapping-layout"
    try:
        want = R.ref_pack(spec, ref.values)
    except R.Reject:
        return "ok:no-values"
    for via in (False, True):
        p = build_packet(spec, ref.values, ns, via)
        try:
            out = p.pack()
        except PacketError as e:
            return "FAIL sig=C02|consistent-values-rejected-on-pack|%s via_setattr=%r values=%r" % (key, via, R.plain(ref.values))
        if out != want:
            return "FAIL sig=C02|bytes-differ-from-declared-layout|%s out=%r want=%r values=%r" % (key, out, want, R.plain(ref.values))
        q = cls(_initialize_fields=False)
        try:
            end = q.unpack_impl(out, 0, root=q)
        except PacketError:
            return "FAIL sig=C02|own-output-rejected|%s out=%r" % (key, out)
        if end != len(out) and not _ends_before_extent(spec):
            return "FAIL sig=C02|reparse-does-not-consume-everything|%s out=%r end=%r" % (key, out, end)
        if R.observe(q, spec) != R.plain(ref.values):
            return "FAIL sig=C02|reparse-values-differ|%s got=%r want=%r" % (key, R.observe(q, spec), R.plain(ref.values))
        try:
            if p.assert_consistency() is not True:
                return "FAIL sig=C02|assert-consistency-not-true|%s" % key
        except Exception as e:
            return "FAIL sig=C02|assert-consistency-raises-%s|%s" % (type(e).__name__, key)
    return "ok:accepted"


def _ends_before_extent(spec):
    """declarations whose last field is positioned backwards leave the cursor before the end of the string"""
    def back(f):
        return f.move is not None
    return any(back(f) for _, f in spec.fields) or any(_ends_before_extent(d) for d in spec.subdecls())


def declared_default(f, opts):
    """(kind, value) the declaration promises for a default-constructed packet"""
    if isinstance(f, (S.Int, S.Bits)):
        return 0 if f.default is None else f.default
    if isinstance(f, S.Data):
        if f.default is not None:
            return f.default
        if f.size is not None and f.size.kind == "const":
            return b"\x00" * f.size.v
        return b""
    if isinstance(f, S.Ref):
        return default_values(f.decl)
    if isinstance(f, S.Seq):
        return [] if f.default is None else eval(f.default)
    if isinstance(f, S.Opt):
        return None if f.default is None else eval(f.default)
    raise TypeError(f)


def default_values(decl):
    vals = R.V(decl.name)
    for fname, f in decl.fields:
        if isinstance(f, (S.Em, S.RefSel)):
            continue
        setattr(vals, fname, declared_default(f, decl.opts))
    return vals


def h_defaults(spec, cls, ns, key, v, b, none_for_optional=False):
    """C19: Cls(**some) holds the declared default in every field not named and the given value in every field named"""
    names = [n for n, f in spec.fields if not isinstance(f, (S.Em, S.RefSel))]
    fields = dict(spec.fields)
    k = min(len(names), 5)
    base = default_values(spec)
    proto = cls()
    for mask in range(1 << k):
        kw = {}
        want = default_values(spec)
        for i in range(k):
            if not (mask >> i) & 1:
                continue
            n = names[i]
            f = fields[n]
            if isinstance(f, S.Bits):
                val = v % (1 << f.w)      # a bit field given a value inside its range (others are reduced mod 2**w: C07)
            elif isinstance(f, S.Int):
                val = v
            elif isinstance(f, S.Data):
                if f.size is not None and f.size.kind == "const":
                    val = (b + b"\x00" * f.size.v)[:f.size.v]
                else:
                    val = b
            elif isinstance(f, S.Seq) and isinstance(f.elem, (S.Int, S.Bits)):
                val = [v, 7]
            elif isinstance(f, S.Opt) and none_for_optional:
                val = None            # an explicit None is a value like any other: it overrides a declared default
            elif isinstance(f, S.Opt) and isinstance(f.elem, (S.Int, S.Bits)):
                val = v
            else:
                continue
            kw[n] = val
            setattr(want, n, val)
        p = cls(**kw)
        for n in names:
            f = fields[n]
            got = getattr(p, n)
            exp = getattr(want, n)
            if isinstance(f, S.Ref):
                if got is getattr(proto, n) or not isinstance(got, ns[f.decl.name]):
                    return "FAIL sig=C19|prototype-shared-or-wrong-class|%s|%s" % (key, n)
                if R.observe(got, f.decl) != R.plain(exp):
                    return "FAIL sig=C19|nested-default-differs|%s|%s got=%r want=%r" % (key, n, R.observe(got, f.decl), R.plain(exp))
            else:
                if isinstance(got, list) and n not in kw and got is getattr(proto, n):
                    return "FAIL sig=C19|default-list-shared|%s|%s" % (key, n)
                if got != exp:
                    return "FAIL sig=C19|field-value|%s|%s given=%r got=%r want=%r" % (key, n, sorted(kw), got, exp)
        # pack() is the encoding of those values
        try:
            want_bytes = R.ref_pack(spec, want)
        except R.Reject:
            want_bytes = None
        try:
            out = p.pack()
        except PacketError:
            out = None
        if out != want_bytes:
            return "FAIL sig=C19|pack-of-defaults|%s given=%r out=%r want=%r" % (key, sorted(kw), out, want_bytes)
    return "ok:accepted"
