"""C02 Serialize-then-parse reproduces the packet."""
from vlib.catalogue import select
from vlib.catobs import obligations


# a packet that was already packed (or parsed) and is then changed: pack() must serialise the CURRENT values
REPACK = '''%(prelude)s


class Sub(Packet):
    __bisturi__ = {%(opts)s}
    f = Bits(1)
    g = Bits(7)


class K(Packet):
    __bisturi__ = {%(opts)s}
    a = Bits(3)
    b = Bits(5)
    c = Bits(12)
    d = Bits(4)
    i = Int(2)
    n = Int(1)
    body = Data(n)
    r = Ref(Sub)
    s = Ref(Sub).repeated(1)


NAMES = ("a", "b", "c", "d", "i")
WIDTH = {"a": 3, "b": 5, "c": 12, "d": 4, "i": 16}


def _set(p, vals, body, sub):
    for nm, v in zip(NAMES, vals):
        setattr(p, nm, v)
    p.n = len(body)
    p.body = body
    p.r.f, p.r.g = sub[0], sub[1]
    if len(p.s) != 1:
        p.s = [Sub()]       # (a repeated field defaults to the empty list)
    p.s[0].f, p.s[0].g = sub[2], sub[3]


def _obs(p):
    return tuple(getattr(p, nm) for nm in NAMES) + (p.n, p.body, p.r.f, p.r.g, p.s[0].f, p.s[0].g)


def _mk(start):
    def h(ones: bool, v2: List[int], b1: bytes, b2: bytes, raw: bytes) -> str:
        assume(len(v2) == 9 and len(b1) <= 2 and len(b2) <= 2)
        # the values held BEFORE the change are one of two concrete bit patterns (all ones / alternating), the values
        # assigned afterwards are symbolic
        if ones:
            v1 = [(1 << WIDTH[nm]) - 1 for nm in NAMES] + [1, 127, 1, 127]
        else:
            v1 = [0x5555 & ((1 << WIDTH[nm]) - 1) for nm in NAMES] + [0, 0x55, 1, 0x2a]
        for nm, v in zip(NAMES, v2):
            assume(0 <= v < (1 << WIDTH[nm]))
        assume(0 <= v2[5] <= 1 and 0 <= v2[6] <= 127 and 0 <= v2[7] <= 1 and 0 <= v2[8] <= 127)
        if start == "parsed":
            raw = fix(raw, 9)
            p = K.unpack(raw, silent=True)
            if p is None:
                return "ok:rejected"
        else:
            p = K()
            _set(p, v1[:5], b1, v1[5:])
            if start == "packed":
                p.pack()
            elif start == "checked":
                p.assert_consistency()
        _set(p, v2[:5], b2, v2[5:])
        want = _obs(p)
        try:
            out = p.pack()
        except PacketError:
            return "FAIL sig=C02|pack-raised-for-consistent-values|x_repack|%%s" %% start
        if _obs(p) != want:
            return "FAIL sig=C02|pack-changed-the-values|x_repack|%%s" %% start
        try:
            q = K.unpack(out)
        except PacketError:
            return "FAIL sig=C02|reparse-rejected|x_repack|%%s out=%%r" %% (start, out)
        if _obs(q) != want:
            return "FAIL sig=C02|reparse-values-differ|x_repack|%%s got=%%r want=%%r" %% (start, _obs(q), want)
        return "ok:accepted"
    return h


HARNESSES = {"fresh": _mk("fresh"), "packed": _mk("packed"), "checked": _mk("checked"), "parsed": _mk("parsed")}
'''


def _repack_obligations():
    from vlib import spec as S
    obs = []
    for gen, opts in (("generic", "'generate_for_pack': False, 'generate_for_unpack': False"), ("generated", "")):
        obs.append({"id": "C02/x_repack/%s" % gen, "module": "c02_x_repack_%s" % gen,
                    "source": (REPACK % dict(prelude=S.PRELUDE, opts=opts)).replace("from vlib.hx import assume, fix", "from typing import List\nfrom vlib.hx import assume, fix"),
                    "fn": ["fresh", "packed", "checked", "parsed"], "required_tags": ["accepted"], "timeout": 240,
                    "bound": "K (Bits 3+5, 12+4; Int(2); n + Data(n); Ref(Sub) and a one-element sequence of Sub with Bits 1+7): the packet "
                             "is new / was packed / was checked with assert_consistency / was parsed from 9 symbolic bytes, THEN every "
                             "field is assigned a symbolic in-range value (body <= 2 bytes); values before the change: two concrete bit "
                             "patterns (all ones / alternating) or what the parse gave",
                    "assertion": "unpack(pack()) gives back exactly the values the packet holds now; pack() does not change them",
                    "decl_text": "K(a Bits(3); b Bits(5); c Bits(12); d Bits(4); i Int(2); n Int(1); body Data(n); r Ref(Sub); "
                                 "s Ref(Sub).repeated(1)); Sub(f Bits(1); g Bits(7))"})
    return obs


def build(tier, seed):
    entries = [e for e in select(tier, exclude=("regex_lossy", "regex_nokeep", "alwaysoverlap", "rawcb")) if "P" not in e["tags"] or tier != "quick"]
    if tier == "quick":
        entries = [e for e in entries if not ("marker" in e["tags"] and "sbl" in e["tags"]) and "G" not in e["tags"]]
    obs = obligations("C02", entries, tier, "H.h_pack_parse(SPEC, CLS, globals(), raw, KEY)", offmax=0,
                      assertion="values := reference parse of a symbolic string (consistent by construction: lengths, counts, "
                                "conditions, delimiter-free bodies); Cls(**values) and attribute assignment: pack() == in-order "
                                "layout of the reference encoder; unpack(pack()) succeeds, consumes everything, equal values; "
                                "assert_consistency() is True")
    obs += _repack_obligations()
    return {"obligations": obs, "bounds": {"declarations": [e["key"] for e in entries] + ["x_repack"],
                                           "values": "every consistent assignment whose encoding fits the per-declaration length bound"},
            "outside": ["assignments whose encoding is longer than the bound",
                        "byte strings ended by a regex delimiter that is not kept in the value: the value does not determine the "
                        "delimiter, pack() of a constructed packet has no literal to emit (same exclusion as C01/C18; the hidden "
                        "state involved is finding F2 under C13)"], "assumptions": []}
