"""C02 Serialize-then-parse reproduces the packet."""
from vlib.catalogue import select
from vlib.catobs import obligations


def build(tier, seed):
    entries = [e for e in select(tier, exclude=("regex_lossy", "regex_nokeep", "alwaysoverlap", "rawcb")) if "P" not in e["tags"] or tier != "quick"]
    if tier == "quick":
        entries = [e for e in entries if not ("marker" in e["tags"] and "sbl" in e["tags"]) and "G" not in e["tags"]]
    obs = obligations("C02", entries, tier, "H.h_pack_parse(SPEC, CLS, globals(), raw, KEY)", offmax=0,
                      assertion="values := reference parse of a symbolic string (consistent by construction: lengths, counts, "
                                "conditions, delimiter-free bodies); Cls(**values) and attribute assignment: pack() == in-order "
                                "layout of the reference encoder; unpack(pack()) succeeds, consumes everything, equal values; "
                                "assert_consistency() is True")
    return {"obligations": obs, "bounds": {"declarations": [e["key"] for e in entries],
                                           "values": "every consistent assignment whose encoding fits the per-declaration length bound"},
            "outside": ["assignments whose encoding is longer than the bound",
                        "byte strings ended by a regex delimiter that is not kept in the value: the value does not determine the "
                        "delimiter, pack() of a constructed packet has no literal to emit (same exclusion as C01/C18; the hidden "
                        "state involved is finding F2 under C13)"], "assumptions": []}
