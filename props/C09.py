"""C09 Deferred field expressions mean what the same Python expression means.

Expression trees are generated as neutral ASTs and rendered twice: as the text a user writes over *fields* (evaluated
on the real field objects it builds the deferred tree; the real compile_expr / exec_compiled_expr then run it) and as
the text of the same expression over *values* (evaluated eagerly by Python).

Layer A (EUF, z3 direct): operand values are terms of an uninterpreted sort, every operator an uninterpreted function;
        z3 must prove deferred == eager with no axioms at all  -> operand order / stack discipline for ALL values and
        all operators (also ** and /), unbounded.
Layer B (CrossHair): x, y symbolic ints, s a list of three symbolic ints; same value or same exception type.
"""
import itertools
import zlib

BIN = ["+", "-", "*", "/", "//", "%", "**", "<=", "<", ">=", ">", "==", "!=", "&", "|", "^", ">>", "<<"]
RISKY_RIGHT = {"**", ">>", "<<"}      # the engine concretises the right operand: narrow range
FLOATY = {"/"}

COMMON = '''\
import operator
from bisturi.packet import Packet, PacketError
from bisturi.field import Int, Data, Bits, Ref
from bisturi.deferred import compile_expr_into_callable, UnaryExpr, BinaryExpr, NaryExpr
from vlib.hx import assume


class P(Packet):
    __bisturi__ = {'generate_for_pack': False, 'generate_for_unpack': False}
    x = Int(2, signed=True)
    y = Int(2, signed=True)
    k = Int(1, signed=True)
    s = Int(1).repeated(3)


F = dict((n, f) for n, f, _, _ in P.get_fields())


def ite(c, ab):
    return ab[0] if bool(c) else ab[1]


def choose(i, opts):
    return opts[i]


def deferred_value(text, pkt):
    expr = eval(text, {"x": F["x"], "y": F["y"], "k": F["k"], "s": F["s"]})
    if not isinstance(expr, (UnaryExpr, BinaryExpr, NaryExpr)):
        raise AssertionError("not a deferred expression: %r" % (text,))
    return compile_expr_into_callable(expr)(pkt=pkt)


def eager_value(text, x, y, k, s):
    return eval(text, {"x": x, "y": y, "k": k, "s": s, "ite": ite, "choose": choose, "truth": operator.truth, "len": len})

TREES = %(trees)r
'''

LAYER_B = COMMON + '''

def _one(dtext, etext, x, y, k, s):
    pkt = P()
    pkt.x, pkt.y, pkt.k, pkt.s = x, y, k, s
    try:
        want = ("value", eager_value(etext, x, y, k, s))
    except Exception as e:
        want = ("raises", type(e).__name__)
    try:
        got = ("value", deferred_value(dtext, pkt))
    except AssertionError:
        raise
    except Exception as e:
        got = ("raises", type(e).__name__)
    if got[0] != want[0]:
        return "FAIL sig=C09|raises-differently|%%s deferred=%%r eager=%%r" %% (dtext, got, want)
    if got[0] == "raises":
        if got[1] != want[1]:
            return "FAIL sig=C09|different-exception|%%s deferred=%%r eager=%%r" %% (dtext, got, want)
        return None
    a, b = got[1], want[1]
    if type(a) is float or type(b) is float:
        ok = (a == b) or (a != a and b != b)
    else:
        ok = (a == b)
    if not ok:
        return "FAIL sig=C09|different-value|%%s deferred=%%r eager=%%r" %% (dtext, a, b)
    return None


def split(v, lo, hi):
    """case split: v in [lo, hi] becomes a concrete int on every path (operators the solver cannot handle symbolically:
    float division, bitwise ops / products / quotients of two unknowns, shift counts, exponents)"""
    assume(lo <= v <= hi)
    for c in range(lo, hi + 1):
        if v == c:
            return c
    assume(False)


def _mk(ix):
    dtext, etext, mode = TREES[ix]

    def h(x: int, y: int, k: int, s0: int, s1: int, s2: int) -> str:
        if "xy-small" in mode:
            x = split(x, -2, 3)
            y = split(y, -2, 3)
        elif "y-small" in mode:
            assume(-4 <= x <= 300)
            y = split(y, -2, 3)
        else:
            assume(-4 <= x <= 300 and -4 <= y <= 300)
        if "k" in mode:
            k = split(k, -1, 6)
        else:
            assume(-1 <= k <= 6)
        assume(0 <= s0 <= 255 and 0 <= s1 <= 255 and 0 <= s2 <= 255)
        r = _one(dtext, etext, x, y, k, [s0, s1, s2])
        return r if r is not None else "ok:same"
    return h


HARNESSES = dict(("t%%d" %% i, _mk(i)) for i in range(len(TREES)))
'''

LAYER_A = COMMON + '''
try:
    import z3
except ImportError:
    z3 = None      # the replay interpreter has no z3: terms are nested tuples there, compared structurally (with no axioms and
                   # pairwise distinct constants "deferred != eager" is satisfiable exactly when the ground terms differ)

if z3 is not None:
    Val = z3.DeclareSort("Val")
_funcs = {}


def _f(name, arity):
    key = (name, arity)
    if key not in _funcs:
        if z3 is None:
            _funcs[key] = lambda *a, name=name: (name,) + a
        else:
            _funcs[key] = z3.Function(name, *([Val] * arity + [Val]))
    return _funcs[key]


def _const(name):
    return ("const", name) if z3 is None else z3.Const(name, Val)


_consts = {}


def lift(v):
    if isinstance(v, U):
        return v.t
    key = repr(v)
    if key not in _consts:
        _consts[key] = _const("c_" + key.replace("-", "m").replace(" ", "").replace(",", "_").replace("[", "L").replace("]", "J")
                                .replace("(", "L").replace(")", "J").replace("{", "D").replace("}", "E").replace(":", "_")
                                .replace("'", "").replace(".", "p"))
    return _consts[key]


class U:
    """a value of the uninterpreted sort: every operator application becomes an uninterpreted function term"""
    def __init__(self, t):
        self.t = t

    def __getitem__(self, i):
        return U(_f("getitem", 2)(self.t, lift(i if not isinstance(i, slice) else ("slice", i.start, i.stop, i.step))))

    def __bool__(self):
        raise TypeError("truth value of an uninterpreted value")


def _install():
    names = {"add": "+", "sub": "-", "mul": "*", "truediv": "/", "floordiv": "//", "mod": "%%", "pow": "**", "le": "<=", "lt": "<",
             "ge": ">=", "gt": ">", "eq": "==", "ne": "!=", "and": "&", "or": "|", "xor": "^", "rshift": ">>", "lshift": "<<"}
    for nm in names:
        def fwd(a, b, nm=nm):
            return U(_f(nm, 2)(a.t, lift(b)))

        def rev(a, b, nm=nm):
            return U(_f(nm, 2)(lift(b), a.t))
        setattr(U, "__%%s__" %% nm, fwd)
        if nm not in ("le", "lt", "ge", "gt", "eq", "ne"):
            setattr(U, "__r%%s__" %% nm, rev)
    U.__neg__ = lambda a: U(_f("neg", 1)(a.t))
    U.__invert__ = lambda a: U(_f("invert", 1)(a.t))
    U.__hash__ = lambda a: id(a)


_install()


def euf() -> str:
    """every tree without truth/len/selectors: deferred term == eager term, proved by z3 with no axioms"""
    x, y, k, s = U(_const("vx")), U(_const("vy")), U(_const("vk")), U(_const("vs"))
    pkt = P()
    pkt.x, pkt.y, pkt.k, pkt.s = x, y, k, s
    n = 0
    for dtext, etext, mode in TREES:
        if "needs-values" in mode:
            continue
        d = deferred_value(dtext, pkt)
        e = eager_value(etext, x, y, k, s)
        if not isinstance(d, U) or not isinstance(e, U):
            return "FAIL sig=C09|euf-not-a-term|%%s" %% dtext
        if z3 is None:
            r = "unsat" if d.t == e.t else "sat"
        else:
            sol = z3.Solver()
            sol.set(timeout=10000)
            sol.add(d.t != e.t)
            r = sol.check()
        if str(r) != "unsat":
            return "FAIL sig=C09|operand-order-or-stack-discipline|%%s deferred=%%s eager=%%s" %% (dtext, d.t, e.t)
        n += 1
    return "ok:proved%%d" %% n
'''


def render(t, mode):
    """mode 'd' = text over fields (deferred), 'e' = text over values (eager)"""
    if isinstance(t, str):
        return t
    if isinstance(t, int):
        return "(%d)" % t if t < 0 else str(t)
    op = t[0]
    if op == "bin":
        return "(%s %s %s)" % (render(t[2], mode), t[1], render(t[3], mode))
    if op == "neg":
        return "(-%s)" % render(t[1], mode)
    if op == "inv":
        return "(~%s)" % render(t[1], mode)
    if op == "truth":
        return "%s.__nonzero__()" % render(t[1], mode) if mode == "d" else "truth(%s)" % render(t[1], mode)
    if op == "len":
        return "%s.__len__()" % render(t[1], mode) if mode == "d" else "len(%s)" % render(t[1], mode)
    if op == "idx":
        return "%s[%s]" % (render(t[1], mode), t[2] if isinstance(t[2], str) and ":" in t[2] else render(t[2], mode))
    if op == "ite":
        c, a, b = (render(u, mode) for u in t[2:5])
        form = t[1]
        if mode == "e":
            return "ite(%s, (%s, %s))" % (c, a, b)
        return {"tuple": "%s.if_true_then_else((%s, %s))", "list": "%s.if_true_then_else([%s, %s])",
                "args": "%s.if_true_then_else(%s, %s)"}[form] % (c, a, b)
    if op == "choose":
        form, idx, opts = t[1], render(t[2], mode), [render(u, mode) for u in t[3]]
        if form == "dict":
            keys = [0, 1, 2][:len(opts)]
            body = "{%s}" % ", ".join("%d: %s" % (k2, o) for k2, o in zip(keys, opts))
            return ("%s.chooses(%s)" % (idx, body)) if mode == "d" else "choose(%s, %s)" % (idx, body)
        if form == "kw":
            names = ["a", "b", "c"][:len(opts)]
            if mode == "d":
                return "%s.chooses(%s)" % (idx, ", ".join("%s=%s" % (n, o) for n, o in zip(names, opts)))
            return "choose(%s, {%s})" % (idx, ", ".join("b%r: %s" % (n, o) for n, o in zip(names, opts)))
        if mode == "e":
            return "choose(%s, [%s])" % (idx, ", ".join(opts))
        if form == "list":
            return "%s.chooses([%s])" % (idx, ", ".join(opts))
        return "%s.chooses(%s)" % (idx, ", ".join(opts))
    raise ValueError(t)


def has_field(t):
    if isinstance(t, str):
        return True
    if isinstance(t, int):
        return False
    return any(has_field(u) for u in t[1:] if isinstance(u, (tuple, str, int, list)) and not (isinstance(u, str) and u in BIN)) \
        if t[0] != "choose" else True


def leftmost_is_field(t):
    """a method form (chooses / if_true_then_else / __nonzero__) needs a field or expression object as receiver"""
    return not isinstance(t, int)


def gen_trees(tier, seed):
    trees = []   # (ast, mode)
    atoms = ["x", "y", 3, -2]
    for op in BIN:
        for a in atoms:
            for b in atoms:
                if isinstance(a, int) and isinstance(b, int):
                    continue
                if op in RISKY_RIGHT:
                    if b == "y":
                        b2 = "k"
                    else:
                        b2 = b
                    if op == "**" and a == "x":
                        pass
                    trees.append((("bin", op, a, b2), "int"))
                else:
                    trees.append((("bin", op, a, b), "float" if op in FLOATY else "int"))
    inner = [("bin", "-", "x", "y"), ("bin", "//", "y", 3), ("bin", "<<", 1, "k"), ("bin", "+", "x", 1), ("neg", "x"),
             ("inv", "y"), ("bin", "-", 8, "x"), ("bin", "%", "x", ("bin", "-", "y", 3))]
    d2 = []
    for op in BIN:
        for inn in inner:
            for other in ["x", "y", 3]:
                for pos in (0, 1):
                    l, r = (inn, other) if pos == 0 else (other, inn)
                    if op in RISKY_RIGHT and not isinstance(r, int):
                        r = "k" if r in ("x", "y") else ("bin", "&", r, 7)
                    d2.append((("bin", op, l, r), "float" if op in FLOATY else "int"))
    if tier == "quick":
        d2 = [t for i, t in enumerate(d2) if i % 4 == seed % 4]
    trees += d2
    # depth 3: left-deep, right-deep, balanced over non-commutative operators
    for o1, o2, o3 in itertools.product(["-", "//", "<<", "+", "%"], repeat=3):
        # (deterministic selection: Python's hash() of strings changes from process to process)
        if tier == "quick" and ((zlib.crc32((o1 + " " + o2 + " " + o3).encode()) + seed) % 5 != 0):
            continue

        def rr(o, l, r):
            if o in RISKY_RIGHT and not isinstance(r, int):
                r = ("bin", "&", r, 3)
            return ("bin", o, l, r)
        trees.append((rr(o1, rr(o2, rr(o3, "x", "y"), 3), "y"), "int"))
        trees.append((rr(o1, "x", rr(o2, "y", rr(o3, "x", 2))), "int"))
        trees.append((rr(o1, rr(o2, "x", 5), rr(o3, 7, "y")), "int"))
    # unary
    for a in ["x", "y", ("bin", "-", "x", "y"), ("bin", "*", 2, "x")]:
        trees.append((("neg", a), "int"))
        trees.append((("inv", a), "int"))
        trees.append((("neg", ("inv", a)), "int"))
        trees.append((("truth", a), "needs-values"))
    trees.append((("bin", "+", ("truth", "x"), 1), "needs-values"))
    # sequences: indexing, constant-bound slicing, length
    for ix in [0, 1, 2, -1, 3, "x", ("bin", "%", "x", 3), ("bin", "-", "y", 1)]:
        trees.append((("idx", "s", ix), "int"))
        trees.append((("bin", "-", ("idx", "s", ix), ("idx", "s", 0)), "int"))
    for sl in ["1:3", ":2", "1:", "::2", "-2:"]:
        trees.append((("idx", "s", sl), "int"))
        trees.append((("idx", ("idx", "s", sl), 0), "int"))
    trees.append((("len", "s"), "needs-values"))
    trees.append((("bin", "==", "s", "s"), "int"))
    trees.append((("bin", "!=", "s", ("idx", "s", "1:")), "int"))
    # selectors
    for form in ("list", "args", "dict", "kw"):
        for idx in ["x", ("bin", "%", "x", 3), ("bin", "-", "y", 1)]:
            trees.append((("choose", form, idx, ["y", ("bin", "+", "x", 1), 7]), "needs-values"))
        trees.append((("choose", form, ("bin", "&", "x", 1), [("bin", "//", "y", "x"), ("neg", "y")]), "needs-values"))
    for form in ("tuple", "list", "args"):
        for c in ["x", ("bin", ">", "x", "y"), ("bin", "&", "x", 1), ("bin", "==", ("idx", "s", 0), 0)]:
            trees.append((("ite", form, c, "y", ("bin", "-", "x", 1)), "needs-values"))
        trees.append((("ite", form, ("bin", "<", "x", 0), ("bin", "//", 1, "x"), ("bin", "%", "y", "x")), "needs-values"))
    # nested selectors inside arithmetic
    trees.append((("bin", "*", 2, ("choose", "list", ("bin", "%", "x", 2), ["y", 5])), "needs-values"))
    trees.append((("bin", "-", ("ite", "tuple", "x", "y", 0), ("ite", "tuple", "y", "x", 1)), "needs-values"))
    out = []
    seen = set()
    for ast, mode in trees:
        d, e = render(ast, "d"), render(ast, "e")
        if d in seen:
            continue
        seen.add(d)
        out.append((d, e, " ".join(sorted(set([mode]) | classify(ast)))))
    return out


def _vars(t):
    if isinstance(t, str):
        return {t} if t in ("x", "y", "k", "s") else set()
    if isinstance(t, (int,)):
        return set()
    if isinstance(t, list):
        return set().union(*[_vars(u) for u in t]) if t else set()
    out = set()
    for u in t[1:]:
        if isinstance(u, str) and (u in BIN or u in ("tuple", "list", "args", "dict", "kw")):
            continue
        out |= _vars(u)
    return out


def classify(t):
    """which operands must be case-split so that every operator stays inside what the engine handles exactly"""
    need = set()
    if isinstance(t, (str, int)):
        return need
    if isinstance(t, list):
        for u in t:
            need |= classify(u)
        return need
    if t[0] == "bin":
        op, l, r = t[1], t[2], t[3]
        lv, rv = _vars(l), _vars(r)
        if op == "/":
            need.add("xy-small")
        if op in ("&", "|", "^") and lv and rv:
            need.add("xy-small")
        if op in ("*", "//", "%") and lv and rv:
            need.add("xy-small" if ("x" in rv and "y" in (lv | rv)) or ("x" in rv) else "y-small")
        if op in RISKY_RIGHT:
            if "k" in rv:
                need.add("k")
            if rv & {"x", "y"}:
                need.add("xy-small")
        if op == "**" and (lv & {"x", "y"}):
            need.add("xy-small")
        need |= classify(l) | classify(r)
        return need
    for u in t[1:]:
        if isinstance(u, (tuple, list)):
            need |= classify(u)
    return need


def build(tier, seed):
    trees = gen_trees(tier, seed)
    obs = []
    src_a = LAYER_A.replace('%(trees)r', repr(trees)).replace('%%', '%')
    obs.append({"id": "C09/euf", "module": "c09_euf", "source": src_a, "fn": "euf", "required_tags": [], "symbolic": True,
                "bound": "%d expression trees (all without truth/len/selectors); operand values uninterpreted (all values, all types)"
                         % sum(1 for t in trees if "needs-values" not in t[2]),
                "assertion": "term built by compile_expr/exec_compiled_expr == term built by eager Python evaluation; z3 (EUF, no axioms) "
                             "proves equality", "decl_text": "; ".join(t[0] for t in trees[:8]) + " ..."})
    batch = 8
    for b in range(0, len(trees), batch):
        chunk = trees[b:b + batch]
        src_b = LAYER_B.replace('%(trees)r', repr(chunk)).replace('%%', '%')
        obs.append({"id": "C09/values/%03d" % (b // batch), "module": "c09_b%03d" % (b // batch), "source": src_b,
                    "fn": ["t%d" % i for i in range(len(chunk))], "required_tags": ["same"], "timeout": 300 if tier == "quick" else 1500,
                    "bound": "x, y symbolic in [-4,300]; case-split to [-2,3] where the operator needs concrete operands (/, bitwise or product/"
                             "quotient of two unknowns, symbolic shift count/exponent); k in [-1,6]; s = list of 3 symbolic bytes",
                    "assertion": "same value, or the same exception type (ZeroDivisionError, ValueError, IndexError, TypeError, KeyError)",
                    "decl_text": "; ".join(t[0] for t in chunk)})
    return {"obligations": obs,
            "bounds": {"trees": len(trees), "depth": "<=3", "values": "x,y in [-4,300], k in [-1,8], 3-element sequence"},
            "outside": ["shift counts / exponents outside [-1,6]", "'/', x&y, x|y, x^y, x*y, x//y, x%y with BOTH operands unknown: operands "
                        "outside [-2,3] (layer A covers operand order for all values)",
                        "trees deeper than 3"], "assumptions": []}
