"""C16 The code cache survives crashes and concurrent definitions (see props/C15.py for the harness source)."""
from props.C15 import source


def build(tier, seed):
    obs = []
    # torn-write lengths: the generated module is written in 4 chunks of ~150 / ~70 / ~500 / ~600 bytes
    if tier == "quick":
        cands = [0, 1, 2, 30, 66, 67, 68, 100, 149, 150, 151, 200, 300, 400, 500, 598, 600]
        nv = 3
    else:
        cands = list(range(0, 230)) + list(range(230, 700, 4))
        nv = 4
    src = source(cands=cands, nv=nv)
    for v1 in range(nv):
        s1 = src.replace("v1, v2 = pick(v1, %d), pick(v2, %d)\n    k = pick(k, 18)" % (nv, nv),
                         "assume(v1 == %d)\n    v1, v2 = %d, pick(v2, %d)\n    k = pick(k, 18)" % (v1, v1, nv))
        obs.append({"id": "C16/crash/first%d" % v1, "module": "c16_crash%d" % v1, "source": s1, "fn": "crash",
                    "required_tags": ["survived", "no-crash"], "collect_all": True, "max_fail_sigs": 12,
                    "timeout": 900 if tier == "quick" else 6000, "per_path_timeout": 120.0,
                    "bound": "declaration %d dies after file-system step k in 0..17 (exists, load, remove, makedirs, open, 4 writes, "
                             "close, replace, reload); a dying write leaves its first c bytes, c in %s; then each of %d declarations is defined in a "
                             "fresh process" % (v1, "every position 0..229 and every 4th up to 699" if tier != "quick" else cands, nv),
                    "assertion": "the later definition succeeds and behaves like its own declaration compiled with generators off",
                    "decl_text": "variants of class Double sharing one cache file"})
    for pre in (False, True):
        src2 = source(cands=[0], nv=nv, preexisting=pre, twocuts=(tier != "quick"))
        # (declarations 6 and 3 generate code for one direction only: the module then lacks the other function)
        for v1 in list(range(nv)) + [v for v in (6, 3) if v >= nv]:
            s2 = src2.replace("v1, v2 = pick(v1, %d), pick(v2, %d)\n    i1 = pick" % (nv, nv),
                              "assume(v1 == %d)\n    v1, v2 = %d, pick(v2, %d)\n    i1 = pick" % (v1, v1, nv))
            obs.append({"id": "C16/race/%s/first%d" % ("stale-cache" if pre else "empty-cache", v1),
                        "module": "c16_race%d_%d" % (pre, v1), "source": s2, "fn": "race",
                        "required_tags": ["survived"], "collect_all": True, "max_fail_sigs": 12,
                        "timeout": 900 if tier == "quick" else 6000, "per_path_timeout": 120.0,
                        "bound": "process under test defines declaration %d; the other process' write side (7 steps) is interleaved at %s of our "
                                 "16 file-system operations, for each of %d other declarations; cache initially %s"
                                 % (v1, "one cut point" if tier == "quick" else "two cut points", nv, "stale" if pre else "empty"),
                        "assertion": "our definition succeeds and behaves like its own declaration",
                        "decl_text": "variants of class Double sharing one cache file"})
    return {"obligations": obs,
            "bounds": {"crash_steps": 16, "torn_positions": len(cands), "declarations": nv,
                       "schedules": "interferer progress at one (quick) / two (thorough) cut points of our operation sequence"},
            "outside": ["more than 2 processes", "more than 1 crash", "schedules in which the other process advances at more than two points",
                        "OS semantics beyond: a write may be torn at any byte, operations are atomic otherwise"],
            "assumptions": ["the local file system and CPython import system stand for the environment (observed, not modelled)"]}
