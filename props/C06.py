"""C06 Byte-string fields take exactly the declared bytes or stop at first delimiter (differential vs reference)."""
from vlib.catalogue import select
from vlib.catobs import obligations


def build(tier, seed):
    entries = select(tier, "data")
    entries = [e for e in entries if "P" not in e["tags"]]
    obs = obligations("C06", entries, tier, 'H.h_equiv(SPEC, CLS, raw, off, KEY, "C06")',
                      assertion="accepted <=> reference accepts; same values (exact declared size / up to first delimiter "
                                "inside the search window, delimiter included or excluded), same end offset; short read, "
                                "negative size, missing delimiter => PacketError")
    return {"obligations": obs,
            "bounds": {"declarations": [e["key"] for e in entries], "lengths": "per declaration (catalogue lq/lt)"},
            "outside": ["markers longer than 3 bytes", "regexes other than X+, X+|$, XY, $"], "assumptions": []}
