"""C10 Positioning and alignment act identically when parsing and serializing.

Unit level  : the real Move.unpack / Move.pack and the per-element alignment of Sequence are called directly with an
              UNBOUNDED symbolic cursor and packet start, for every (kind, reference) x target form x alignment value.
Packet level: catalogue declarations with modifiers (nesting depth 1-3) - positions of reads == positions of the
              bytes in pack() output, skipped bytes '.', output equals the declared layout (reference encoder).
"""
from vlib.catalogue import select
from vlib.catobs import obligations

UNIT = '''\
from bisturi.packet import Packet, PacketError
from bisturi.field import Int, Data, Bits, Ref, Em
from bisturi.structural_fields import Move, Sequence
from bisturi.fragments import Fragments
from vlib.hx import assume


class Holder(Packet):
    __bisturi__ = {'generate_for_pack': False, 'generate_for_unpack': False}
    t = Int(1)
    s = Int(1).repeated(count=0, aligned=%(A)d)


TARGET_FIELD = [f for n, f, _, _ in Holder.get_fields() if n == 't'][0]
SEQ_FIELD = [f for n, f, _, _ in Holder.get_fields() if n == 's'][0]


def expected(kind, ref, cur, start, val):
    if ref == 'begins':
        base = 0
    elif ref == 'current-offset':
        base = cur
    else:
        base = start
    if kind == 'aligned':
        adv = 0
        # least advance in [0, val) making (cur + adv - base) a multiple of val
        rem = (cur - base) %% val
        adv = 0 if rem == 0 else val - rem
        return cur + adv
    if kind == 'shift':
        return cur + val
    return base + val


def mk_move(kind, ref, form, const):
    if form == 'const':
        arg = const
    elif form == 'field':
        arg = TARGET_FIELD
    else:
        arg = (lambda pkt, **k: pkt.t)
    return Move(arg, ref, kind == 'aligned')


def check(kind, ref, form, const, cur, start, tval):
    """one Move: unpack side and pack side land on the same position == the documented one"""
    mv = mk_move(kind, ref, form, const)
    pkt = Holder()
    pkt.t = tval
    val = const if form == 'const' else tval
    want = expected(kind, ref, cur, start, val)
    got_u = mv.unpack(pkt=pkt, raw=b'', offset=cur, **{'innermost-pkt-pos': start})
    fr = Fragments()
    fr.current_offset = cur
    mv.pack(pkt=pkt, fragments=fr, **{'innermost-pkt-pos': start})
    got_p = fr.current_offset
    if got_u != got_p:
        return "FAIL sig=C10|move-asymmetric|%%s-%%s-%%s unpack=%%r pack=%%r" %% (kind, ref, form, got_u, got_p)
    if got_u != want:
        return "FAIL sig=C10|move-wrong-position|%%s-%%s-%%s got=%%r want=%%r" %% (kind, ref, form, got_u, want)
    if kind == 'aligned':
        adv = got_u - cur
        base = 0 if ref == 'begins' else (cur if ref == 'current-offset' else start)
        if not (0 <= adv < val):
            return "FAIL sig=C10|alignment-advance-not-minimal|%%s-%%s adv=%%r" %% (ref, form, adv)
        if (got_u - base) %% val != 0:
            return "FAIL sig=C10|not-aligned|%%s-%%s" %% (ref, form)
    return None


def h_const(cur: int, start: int) -> str:
    assume(0 <= start <= cur)
    for kind, ref in %(kinds)r:
        r = check(kind, ref, 'const', %(A)d, cur, start, 0)
        if r is not None:
            return r
    return "ok:moved"


def h_dyn(cur: int, start: int, tval: int) -> str:
    assume(0 <= start <= cur)
    assume(0 <= tval <= 255)
    for kind, ref in %(kinds_noalign)r:
        for form in ('field', 'callable'):
            r = check(kind, ref, form, 0, cur, start, tval)
            if r is not None:
                return r
    return "ok:moved"


def h_dyn_align(cur: int, start: int) -> str:
    assume(0 <= start <= cur)
    for ref in ('begins', 'innermost-pkt', 'current-offset'):
        for form in ('field', 'callable'):
            r = check('aligned', ref, form, 0, cur, start, %(A)d)
            if r is not None:
                return r
    return "ok:moved"


def h_seq_align(cur: int, b0: int, b1: int) -> str:
    """per-element alignment of a repeated field: unpack and pack advance the cursor identically, minimally"""
    assume(0 <= cur <= 40)
    assume(0 <= b0 <= 255 and 0 <= b1 <= 255)
    A = %(A)d
    first = cur + (A - cur %% A) %% A
    second = (first + 1) + (A - (first + 1) %% A) %% A
    raw = b'.' * first + bytes([b0]) + b'.' * (second - first - 1) + bytes([b1])
    pkt = Holder()
    pkt.s = []
    SEQ_FIELD.get_how_many_elements = lambda **k: 2
    end = SEQ_FIELD.unpack(pkt=pkt, raw=raw, offset=cur, **{'innermost-pkt-pos': 0})
    if pkt.s != [b0, b1] or end != second + 1:
        return "FAIL sig=C10|sequence-element-alignment-unpack|A=%%d got=%%r end=%%r" %% (A, pkt.s, end)
    fr = Fragments()
    fr.current_offset = cur
    SEQ_FIELD.pack(pkt, fr, **{'innermost-pkt-pos': 0})
    out = fr.tobytes()
    if fr.current_offset != end or out[first] != b0 or out[second] != b1 or len(out) != second + 1:
        return "FAIL sig=C10|sequence-element-alignment-pack|A=%%d out=%%r" %% (A, out)
    for i in range(len(out)):
        if i != first and i != second and out[i] != 46:
            return "FAIL sig=C10|skipped-byte-not-filled|A=%%d out=%%r" %% (A, out)
    return "ok:moved"
'''


def build(tier, seed):
    obs = []
    kinds = [("aligned", "begins"), ("aligned", "innermost-pkt"), ("aligned", "current-offset"),
             ("at", "begins"), ("at", "innermost-pkt"), ("at", "current-offset"), ("shift", "current-offset")]
    noalign = [k for k in kinds if k[0] != "aligned"]
    avals = [1, 2, 3, 4, 5, 7, 8, 16] if tier == "quick" else list(range(1, 17)) + [24, 32, 64, 100]
    for A in avals:
        src = UNIT % dict(A=A, kinds=kinds, kinds_noalign=noalign)
        for fn, bound in (("h_const", "cursor and packet start unbounded symbolic ints (0 <= start <= cursor); constant target %d" % A),
                          ("h_dyn", "cursor/start unbounded; field-valued and callable targets, value symbolic in [0,255]"),
                          ("h_dyn_align", "cursor/start unbounded; alignment %d given by a field / callable" % A),
                          ("h_seq_align", "cursor in [0,40], two symbolic element bytes; repeated(aligned=%d)" % A)):
            if fn == "h_dyn" and A != avals[0]:
                continue
            obs.append({"id": "C10/unit/A%d/%s" % (A, fn), "module": "c10_unit_a%d" % A, "source": src, "fn": fn,
                        "required_tags": ["moved"], "bound": bound,
                        "assertion": "Move.unpack and Move.pack move the cursor to the same position == documented position; "
                                     "alignment advance in [0,A) and result aligned relative to the reference point",
                        "decl_text": "Move(kind x reference x target form), alignment value %d" % A})
    entries = [e for e in select(tier, "move") if "P" not in e["tags"] or tier != "quick"]
    rel = [e for e in entries if not e["decl"].absolute_positioning()]
    absol = [e for e in entries if e["decl"].absolute_positioning()]
    a = "reads and writes of every field at the same position relative to its reference point; skipped bytes '.'; " \
        "pack() == declared layout (reference encoder)"
    obs += obligations("C10", rel, tier, "H.h_positions(SPEC, CLS, raw, off, KEY)", assertion=a)
    obs += obligations("C10", absol, tier, "H.h_positions(SPEC, CLS, raw, off, KEY)", offmax=0, idsuffix="/off0", assertion=a)
    for o in obs:
        if "alwaysoverlap" in o.get("entry_tags", ()):
            o["required_tags"] = ["overlap"]
    return {"obligations": obs,
            "bounds": {"unit": "alignment values %s; cursor unbounded" % avals, "declarations": [e["key"] for e in entries]},
            "outside": ["start-of-data positioning with non-zero start offset (finding F9, reported under C01)",
                        "alignment values not listed (A is concrete: x % A with symbolic A is non-linear)"],
            "assumptions": []}
