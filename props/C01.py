"""C01 Parse-then-serialize reproduces the parsed bytes."""
from vlib.catalogue import select
from vlib.catobs import obligations


def build(tier, seed):
    entries = [e for e in select(tier, exclude=("regex_lossy",)) if "P" not in e["tags"] or tier != "quick"]
    if tier == "quick":
        entries = [e for e in entries if "G" not in e["tags"]]      # generator shapes are C03's subject
    rel = [e for e in entries if not e["decl"].absolute_positioning()]
    absol = [e for e in entries if e["decl"].absolute_positioning()]
    a = "for accepted inputs: pack() equals raw at every consumed position (relative to the start offset), '.' at skipped " \
        "positions, is no longer than the traversed region; overlapping reads => PacketError"
    obs = obligations("C01", rel, tier, "H.h_roundtrip(SPEC, CLS, raw, off, KEY)", assertion=a)
    obs += obligations("C01", absol, tier, "H.h_roundtrip(SPEC, CLS, raw, off, KEY)", offmax=0, idsuffix="/off0", assertion=a)
    nz = absol if tier != "quick" else [e for e in absol if e["key"] in ("s_align_begins", "s_at_begins", "s_seq_aligned")]
    obs += obligations("C01", nz, tier, "H.h_roundtrip(SPEC, CLS, raw, off, KEY, True)", offmin=1,
                       offmax=1 if tier == "quick" else 2, idsuffix="/offnz", assertion=a, min_len=1, required=())
    for o in obs:
        o["collect_all"] = True
        if "alwaysoverlap" in o["entry_tags"]:
            o["required_tags"] = ["overlap-rejected"]
    return {"obligations": obs,
            "bounds": {"declarations": [e["key"] for e in entries]},
            "outside": ["declarations excluded by the property: non-kept regex delimiter matching different strings, "
                        "consume_delimiter=False, embed=True"], "assumptions": []}
