"""C03 Generated pack/unpack code is equivalent to field-by-field interpretation.

Enumerated: declarations whose shape the generator groups (mixed endianness/signed/Data(n) runs, non-struct widths
            splitting a run, variable fields and loops between runs, positioned fields) x all 16 combinations of
            generate_for_pack / generate_for_unpack / vectorize / annotate; configuration 0000 is the reference.
Symbolic  : unpack - raw bytes of every length and start offset; pack - every field value (ints UNBOUNDED, byte
            strings of the declared length).
"""
import itertools

from vlib import spec as S
from vlib.catalogue import CAT, select

TEMPLATE = '''%(prelude)s
from typing import List
from vlib.catalogue import get
from vlib import refmodel as R
SPEC = get(%(key)r)

%(classes)s

REF, ALT = %(ref)s, %(alt)s


def _unpack(cls, raw, off):
    p = cls(_initialize_fields=False)
    try:
        end = p.unpack_impl(raw, off, root=p)
    except PacketError as e:
        return None, None
    return p, end

%(fns)s
'''

UFN = '''
def u_T%(T)d(raw: bytes, off: int) -> str:
    raw = fix(raw, %(T)d)
    assume(0 <= off <= %(offhi)d)
    p0, e0 = _unpack(REF, raw, off)
    p1, e1 = _unpack(ALT, raw, off)
    if (p0 is None) != (p1 is None):
        return "FAIL sig=C03|unpack-accepts-differently|%(key)s|%(cfg)s generic=%%r" %% (p0 is not None,)
    if p0 is None:
        return "ok:rejected"
    if e0 != e1:
        return "FAIL sig=C03|unpack-end-differs|%(key)s|%(cfg)s %%r vs %%r" %% (e0, e1)
    o0, o1 = R.observe(p0, SPEC)[2], R.observe(p1, SPEC)[2]
    if o0 != o1:
        return "FAIL sig=C03|unpack-values-differ|%(key)s|%(cfg)s generic=%%r alt=%%r" %% (o0, o1)
    return "ok:accepted"
'''


def _pack_fn(key, cfg, decl):
    """symbolic values for every top-level value field (ints unbounded; bytes of declared/small length)"""
    args, build, pre = [], [], []
    for name, f in decl.fields:
        if isinstance(f, (S.Int, S.Bits)):
            args.append("%s: int" % name)
            build.append("%s=%s" % (name, name))
        elif isinstance(f, S.Data):
            args.append("%s: bytes" % name)
            build.append("%s=%s" % (name, name))
            if f.size is not None and f.size.kind == "const":
                pre.append("    assume(len(%s) == %d)" % (name, f.size.v))
            else:
                pre.append("    assume(len(%s) <= 3)" % name)
        elif isinstance(f, S.Seq) and isinstance(f.elem, S.Int):
            args.append("%s: List[int]" % name)
            build.append("%s=%s" % (name, name))
            pre.append("    assume(len(%s) <= 2)" % name)
        elif isinstance(f, S.Opt) and isinstance(f.elem, S.Int):
            args.append("%s: int" % name)
            args.append("%s_absent: bool" % name)
            build.append("%s=(None if %s_absent else %s)" % (name, name, name))
    return '''
def p_vals(%(args)s) -> str:
%(pre)s
    pk_ref = REF(%(build)s)
    pk_alt = ALT(%(build)s)
    try:
        oa = pk_ref.pack()
    except PacketError as e:
        oa = None
    try:
        ob = pk_alt.pack()
    except PacketError as e:
        ob = None
    if (oa is None) != (ob is None):
        return "FAIL sig=C03|pack-fails-differently|%(key)s|%(cfg)s generic_ok=%%r" %% (oa is not None,)
    if oa is None:
        return "ok:rejected"
    if oa != ob:
        return "FAIL sig=C03|pack-bytes-differ|%(key)s|%(cfg)s generic=%%r alt=%%r" %% (oa, ob)
    return "ok:packed"
''' % dict(args=", ".join(args), pre="\n".join(pre) or "    pass", build=", ".join(build), key=key, cfg=cfg)


# declarations outside the catalogue's language: Ref(..., embed=True) lends the fields of another packet class to this one
# (a do-nothing placeholder field stays where the Ref was, followed by the borrowed fields)
EMBED = {
    "x_embed_var": ("name = Data(until_marker=b'\\x00')\n    kind = Int(1)",
                    "size = Int(1)\n    body = Data(size)\n    hdr = Ref(Header, embed=True)\n    crc = Int(2)",
                    [("size", "int"), ("body", "bytes"), ("name", "bytes"), ("kind", "int"), ("crc", "int")], 7),
    "x_embed_fixed": ("a = Int(1)\n    b = Int(2, endianness='little')",
                      "x = Int(1)\n    hdr = Ref(Header, embed=True)\n    y = Int(1)\n    d = Data(y)\n    z = Int(1)",
                      [("x", "int"), ("a", "int"), ("b", "int"), ("y", "int"), ("d", "bytes"), ("z", "int")], 8),
}

EMBED_TEMPLATE = '''%(prelude)s


class Header(Packet):
    __bisturi__ = {"generate_for_pack": False, "generate_for_unpack": False}
    %(header)s


class Msg_ref(Packet):
    __bisturi__ = {"generate_for_pack": False, "generate_for_unpack": False, "vectorize": False, "annotate": False}
    %(body)s


class Msg_alt(Packet):
    __bisturi__ = %(opts)r
    %(body)s


REF, ALT = Msg_ref, Msg_alt
NAMES = %(names)r


def _unpack(cls, raw, off):
    p = cls(_initialize_fields=False)
    try:
        end = p.unpack_impl(raw, off, root=p)
    except PacketError as e:
        return None, None
    return p, end


def _values(p):
    return [getattr(p, n, "<unset>") for n in NAMES]

%(fns)s
'''

EMBED_UFN = '''
def u_T%(T)d(raw: bytes, off: int) -> str:
    raw = fix(raw, %(T)d)
    assume(0 <= off <= %(offhi)d)
    p0, e0 = _unpack(REF, raw, off)
    p1, e1 = _unpack(ALT, raw, off)
    if (p0 is None) != (p1 is None):
        return "FAIL sig=C03|unpack-accepts-differently|%(key)s|%(cfg)s generic=%%r" %% (p0 is not None,)
    if p0 is None:
        return "ok:rejected"
    if e0 != e1:
        return "FAIL sig=C03|unpack-end-differs|%(key)s|%(cfg)s %%r vs %%r" %% (e0, e1)
    o0, o1 = _values(p0), _values(p1)
    if o0 != o1:
        return "FAIL sig=C03|unpack-values-differ|%(key)s|%(cfg)s generic=%%r alt=%%r" %% (o0, o1)
    return "ok:accepted"
'''


def _embed_pack_fn(key, cfg, fields):
    args = ", ".join("%s: %s" % (n, t) for n, t in fields)
    pre = "\n".join("    assume(len(%s) <= 2)" % n for n, t in fields if t == "bytes") or "    pass"
    build = ", ".join("%s=%s" % (n, n) for n, t in fields)
    return '''
def p_vals(%(args)s) -> str:
%(pre)s
    pk_ref = REF(%(build)s)
    pk_alt = ALT(%(build)s)
    try:
        oa = pk_ref.pack()
    except PacketError as e:
        oa = None
    try:
        ob = pk_alt.pack()
    except PacketError as e:
        ob = None
    if (oa is None) != (ob is None):
        return "FAIL sig=C03|pack-fails-differently|%(key)s|%(cfg)s generic_ok=%%r" %% (oa is not None,)
    if oa is None:
        return "ok:rejected"
    if oa != ob:
        return "FAIL sig=C03|pack-bytes-differ|%(key)s|%(cfg)s generic=%%r alt=%%r" %% (oa, ob)
    return "ok:packed"
''' % dict(args=args, pre=pre, build=build, key=key, cfg=cfg)


def _embed_obligations(tier, cfgs):
    obs = []
    for key, (header, body, fields, lmax) in EMBED.items():
        offhi = 1
        lengths = sorted(set([0, 1, lmax // 2, lmax - 2, lmax - 1, lmax, lmax + 1])) if tier == "quick" else list(range(0, lmax + 3))
        for gp, gu, vec, ann in cfgs:
            cfg = "%d%d%d%d" % (gp, gu, vec, ann)
            opts = {"generate_for_pack": gp, "generate_for_unpack": gu, "vectorize": vec, "annotate": ann}
            fns = "".join(EMBED_UFN % dict(T=T, offhi=min(offhi, T), key=key, cfg=cfg) for T in lengths)
            fns += _embed_pack_fn(key, cfg, fields)
            src = EMBED_TEMPLATE % dict(prelude=S.PRELUDE, header=header, body=body, opts=opts, names=[n for n, t in fields], fns=fns)
            text = "class Header(Packet):\n    %s\n\nclass Msg(Packet):\n    %s" % (header, body)
            if gu:
                obs.append({"id": "C03/%s/%s/unpack" % (key, cfg), "module": "c03_%s_%s" % (key, cfg), "source": src,
                            "fn": ["u_T%d" % T for T in lengths], "required_tags": ["accepted", "rejected"],
                            "bound": "raw of total length in %s, start offset in [0,%d]" % (lengths, offhi),
                            "assertion": "same accept/reject, end offset and field values as configuration 0000", "decl_text": text})
            if gp:
                obs.append({"id": "C03/%s/%s/pack" % (key, cfg), "module": "c03_%s_%s" % (key, cfg), "source": src,
                            "fn": "p_vals", "required_tags": ["packed"],
                            "bound": "every field value symbolic: ints unbounded, byte strings of <=2 bytes",
                            "assertion": "same bytes, or PacketError on both, as configuration 0000", "decl_text": text})
    return obs


def build(tier, seed):
    entries = select(tier, families=("G",))
    extra = ["s_int_run", "s_int_cls_little", "s_data3", "s_bits_two_runs", "d_based_on_other"]
    entries += [CAT[k] for k in extra]
    obs = []
    cfgs = list(itertools.product((False, True), repeat=4))[1:]
    for e in entries:
        key, decl = e["key"], e["decl"]
        lmax = e["lq"] if tier == "quick" else e["lt"]
        offhi = 1 if tier == "quick" else 2
        # lengths: quick = the interesting tail (complete and one-short inputs, empty); thorough = all
        if tier == "quick":
            lengths = sorted(set([0, 1, lmax // 2, lmax - 2, lmax - 1, lmax, lmax + 1]) & set(range(0, lmax + 2)))
        else:
            lengths = list(range(0, lmax + offhi + 1))
        for gp, gu, vec, ann in cfgs:
            cfg = "%d%d%d%d" % (gp, gu, vec, ann)
            opts = {"generate_for_pack": gp, "generate_for_unpack": gu, "vectorize": vec, "annotate": ann}
            ref_opts = {"generate_for_pack": False, "generate_for_unpack": False, "vectorize": False, "annotate": False}
            subs = decl.subdecls()
            classes = "\n\n".join(S.render_class(d, "generic") for d in subs)
            classes += "\n\n" + S.render_class(decl, ref_opts, name=decl.name + "_ref")
            classes += "\n\n" + S.render_class(decl, opts, name=decl.name + "_alt")
            fns = "".join(UFN % dict(T=T, offhi=min(offhi, T), key=key, cfg=cfg) for T in lengths)
            fns += _pack_fn(key, cfg, decl)
            src = TEMPLATE % dict(prelude=S.PRELUDE, key=key, classes=classes, ref=decl.name + "_ref",
                                  alt=decl.name + "_alt", fns=fns)
            if gu:
                obs.append({"id": "C03/%s/%s/unpack" % (key, cfg), "module": "c03_%s_%s" % (key, cfg), "source": src,
                            "fn": ["u_T%d" % T for T in lengths], "required_tags": ["accepted", "rejected"],
                            "bound": "raw of total length in %s, start offset in [0,%d]" % (lengths, offhi),
                            "assertion": "same accept/reject, end offset and field values as configuration 0000",
                            "decl_text": classes})
            if gp:
                obs.append({"id": "C03/%s/%s/pack" % (key, cfg), "module": "c03_%s_%s" % (key, cfg), "source": src,
                            "fn": "p_vals", "required_tags": ["packed"],
                            "bound": "every field value symbolic: ints unbounded, byte strings of the declared length "
                                     "(<=3 when variable), lists of <=2 ints",
                            "assertion": "same bytes, or PacketError on both, as configuration 0000",
                            "decl_text": classes})
    obs += _embed_obligations(tier, cfgs)
    return {"obligations": obs,
            "bounds": {"declarations": [e["key"] for e in entries] + sorted(EMBED), "configurations": "15 non-reference combinations of the 4 switches"},
            "outside": ["byte-string values whose length differs from the declared constant size (struct 's' pads/truncates; "
                        "not 'well-typed')"], "assumptions": []}
