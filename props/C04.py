"""C04 Unpack is strict: no value is decoded from bytes that are not there.

For every catalogue declaration and EVERY total input length 0..N (hence every truncation point of every valid
encoding within the bound), real acceptance implies acceptance by the strict reference with the same values."""
from vlib.catalogue import select
from vlib.catobs import obligations
from vlib.spec import Decl, Int, Bits


def build(tier, seed):
    entries = [e for e in select(tier) if "P" not in e["tags"] or tier != "quick"]
    if tier == "quick":
        entries = [e for e in entries if e["tags"] & {"int", "bits", "data", "seq", "opt", "ref", "refsel"}]
        # delimiter search-window variants are C06's subject; keep one per marker here
        entries = [e for e in entries if not ("marker" in e["tags"] and "sbl" in e["tags"]) and "G" not in e["tags"]]
    obs = obligations("C04", entries, tier, "H.h_strict(SPEC, CLS, raw, off, KEY)", min_len=0,
                      assertion="real accepts => strict reference accepts with identical values (each value decoded from "
                                "exactly its declared number of bytes inside the input); unpack(silent=True) is None exactly "
                                "when unpack raises")
    return {"obligations": obs,
            "bounds": {"declarations": [e["key"] for e in entries],
                       "lengths": "every total length 0..lq(+offset) per declaration: all truncation points"},
            "outside": ["inputs longer than the per-declaration bound"], "assumptions": []}
