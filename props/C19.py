"""C19 Default-constructed packets hold the declared defaults."""
from vlib.catalogue import CAT, select
from vlib.catobs import obligations
from vlib.spec import Bits, Data, Decl, Int, Opt, Ref, Seq, Fld, Ex

FN = '''
def dflt(v: int, b: bytes, nn: bool) -> str:
    assume(len(b) <= 2)
    return H.h_defaults(SPEC, CLS, globals(), KEY, v, b, nn)
'''

def build(tier, seed):
    entries = [e for e in select(tier) if "P" not in e["tags"] and "refsel" not in e["tags"]] + select(tier, families=("U",))
    if tier == "quick":
        entries = [e for e in entries if not ("marker" in e["tags"] and "sbl" in e["tags"]) and not e["key"].startswith("g_bridge")]
    obs = []
    for e in entries:
        for gen in ("generic", "generated"):
            base = obligations("C19", [e], tier, "'ok:unused'", gens=(gen,), lengths=[0], extra_src=FN.replace("KEY", repr(e["key"])))[0]
            base.update({"fn": "dflt", "required_tags": ["accepted"],
                         "bound": "every subset of the first <=5 value fields overridden by keyword; override values symbolic "
                                  "(unbounded int, bytes of <=2 padded to the declared size)",
                         "assertion": "named fields read back the given value, all others the declared default (0 / NULs of the declared "
                                      "size / b'' / fresh copy of the prototype / given or empty list / None or given); pack() == encoding "
                                      "of those values (or both reject)"})
            obs.append(base)
    return {"obligations": obs, "bounds": {"declarations": [e["key"] for e in entries]},
            "outside": ["run-time selected references (their default is whatever the user passes)"], "assumptions": []}
