"""C19 Default-constructed packets hold the declared defaults."""
from vlib.catalogue import CAT, select
from vlib.catobs import obligations
from vlib.spec import Bits, Data, Decl, Int, Opt, Ref, Seq, Fld, Ex

FN = '''
def dflt(v: int, b: bytes) -> str:
    assume(len(b) <= 2)
    return H.h_defaults(SPEC, CLS, globals(), KEY, v, b)
'''

# declarations with user supplied defaults
UD_Inner = Decl("UDInner", [("x", Int(1, default=7)), ("y", Data(2, default=b"hi"))])
USER = {
    "u_defaults": Decl("UDefaults", [("a", Int(2, default=513)), ("b", Bits(4, default=9)), ("c", Bits(4)),
                                     ("d", Data(3, default=b"abc")), ("e", Data(until=b"\x00", default=b"zz")),
                                     ("r", Ref(UD_Inner)), ("s", Seq(Int(1), count=2, default="[1, 2]")),
                                     ("o", Opt(Int(1), Ex("a == 1"), default="5"))]),
}


def build(tier, seed):
    from vlib import catalogue
    for k, d in USER.items():
        if k not in CAT:
            catalogue.add(k, d, 4, 5, "U")
    entries = [e for e in select(tier) if "P" not in e["tags"] and "refsel" not in e["tags"]]
    if tier == "quick":
        entries = [e for e in entries if not ("marker" in e["tags"] and "sbl" in e["tags"])]
    obs = []
    for e in entries:
        for gen in ("generic", "generated"):
            base = obligations("C19", [e], tier, "'ok:unused'", gens=(gen,), lengths=[0], extra_src=FN.replace("KEY", repr(e["key"])))[0]
            base.update({"fn": "dflt", "required_tags": ["accepted"],
                         "bound": "every subset of the first <=5 value fields overridden by keyword; override values symbolic "
                                  "(unbounded int, bytes of <=2 padded to the declared size)",
                         "assertion": "named fields read back the given value, all others the declared default (0 / NULs of the declared "
                                      "size / b'' / fresh copy of the prototype / given or empty list / None or given); pack() == encoding "
                                      "of those values (or both reject)"})
            obs.append(base)
    return {"obligations": obs, "bounds": {"declarations": [e["key"] for e in entries]},
            "outside": ["run-time selected references (their default is whatever the user passes)"], "assumptions": []}
