"""C19 Default-constructed packets hold the declared defaults."""
from vlib.catalogue import CAT, select
from vlib.catobs import obligations
from vlib.spec import Bits, Data, Decl, Int, Opt, Ref, Seq, Fld, Ex

FN = '''
def dflt(v: int, b: bytes, nn: bool) -> str:
    assume(len(b) <= 2)
    return H.h_defaults(SPEC, CLS, globals(), KEY, v, b, nn)
'''

NESTED = '''%(prelude)s


class Pt(Packet):
    __bisturi__ = {%(opts)s}
    x = Int(1)
    y = Int(1)


class Path(Packet):
    __bisturi__ = {%(opts)s}
    count = Int(1, default=2)
    points = Ref(Pt).repeated(count, default=[Pt(x=1, y=2), Pt(x=3, y=4)])


class Seg(Packet):
    __bisturi__ = {%(opts)s}
    begin = Ref(Pt(x=1, y=2))
    end = Ref(Pt(x=3, y=4))


class Shape(Packet):
    __bisturi__ = {%(opts)s}
    kind = Int(1)
    outline = Ref(lambda **k: Seg(), default=Seg(end=Pt(x=9, y=8)))
    tags = Ref(Seg).repeated(1, default=[Seg(begin=Pt(x=5, y=6))])


def _path(p):
    return (p.count, [(q.x, q.y) for q in p.points], p.pack())


def _seg(s):
    return ((s.begin.x, s.begin.y), (s.end.x, s.end.y))


def _shape(p):
    return (p.kind, _seg(p.outline), [_seg(t) for t in p.tags], p.pack())


PATH0 = (2, [(1, 2), (3, 4)], b"\\x02\\x01\\x02\\x03\\x04")
SEG0 = ((1, 2), (3, 4))
SHAPE0 = (0, ((1, 2), (9, 8)), [((5, 6), (3, 4))], b"\\x00\\x01\\x02\\x09\\x08\\x05\\x06\\x03\\x04")


def nested(v: int, w: int, raw: bytes) -> str:
    """defaults that CONTAIN packets (a given list of packets, a given packet holding packets): whatever an earlier packet
    of the class did to the content of its own copy - in place - a packet constructed later holds the declared default"""
    assume(0 <= v <= 255 and 0 <= w <= 255)
    raw = fix(raw, 5)
    first = Path()
    if _path(first) != PATH0:
        return "FAIL sig=C19|nested-default-differs|Path|first got=%%r" %% (_path(first),)
    first.points[0].x = v
    first.points[1].y = w
    first.points.append(Pt(x=w))
    first.count = 3
    parsed = Path.unpack(raw, silent=True)
    if parsed is not None and len(parsed.points) > 0:
        parsed.points[0].y = v
    second = Path()
    if _path(second) != PATH0:
        return "FAIL sig=C19|nested-default-differs|Path|after-in-place-change got=%%r" %% (_path(second),)
    if any(a is b for a in first.points for b in second.points):
        return "FAIL sig=C19|default-content-shared|Path.points"
    s1 = Seg()
    s1.begin.x = v
    s1.end.y = w
    s2 = Seg()
    if _seg(s2) != SEG0:
        return "FAIL sig=C19|nested-default-differs|Seg|after-in-place-change got=%%r" %% (_seg(s2),)
    a = Shape()
    if _shape(a) != SHAPE0:
        return "FAIL sig=C19|nested-default-differs|Shape|first got=%%r" %% (_shape(a),)
    a.outline.end.x = v
    a.outline.begin.y = w
    a.tags[0].begin.x = v
    a.tags[0].end.y = w
    b = Shape()
    if _shape(b) != SHAPE0:
        return "FAIL sig=C19|nested-default-differs|Shape|after-in-place-change got=%%r" %% (_shape(b),)
    if a.outline is b.outline or a.outline.end is b.outline.end or a.tags[0] is b.tags[0] or a.tags[0].begin is b.tags[0].begin:
        return "FAIL sig=C19|default-content-shared|Shape"
    # keywords override exactly the named field, the other keeps its nested default
    c = Path(count=v)
    if (c.count, [(q.x, q.y) for q in c.points]) != (v, PATH0[1]):
        return "FAIL sig=C19|field-value|Path|given=count got=%%r" %% ((c.count, [(q.x, q.y) for q in c.points]),)
    d = Shape(kind=v)
    if (d.kind, _seg(d.outline), [_seg(t) for t in d.tags]) != (v,) + SHAPE0[1:3]:
        return "FAIL sig=C19|field-value|Shape|given=kind"
    return "ok:accepted"
'''


def build(tier, seed):
    entries = [e for e in select(tier) if "P" not in e["tags"] and "refsel" not in e["tags"]] + select(tier, families=("U",))
    if tier == "quick":
        entries = [e for e in entries if not ("marker" in e["tags"] and "sbl" in e["tags"]) and not e["key"].startswith("g_bridge")]
    obs = []
    for e in entries:
        for gen in ("generic", "generated"):
            base = obligations("C19", [e], tier, "'ok:unused'", gens=(gen,), lengths=[0], extra_src=FN.replace("KEY", repr(e["key"])))[0]
            base.update({"fn": "dflt", "required_tags": ["accepted"],
                         "bound": "every subset of the first <=5 value fields overridden by keyword; override values symbolic "
                                  "(unbounded int, bytes of <=2 padded to the declared size)",
                         "assertion": "named fields read back the given value, all others the declared default (0 / NULs of the declared "
                                      "size / b'' / fresh copy of the prototype / given or empty list / None or given); pack() == encoding "
                                      "of those values (or both reject)"})
            obs.append(base)
    from vlib import spec as S
    for gen, opts in (("generic", "'generate_for_pack': False, 'generate_for_unpack': False"), ("generated", "")):
        obs.append({"id": "C19/nested-defaults/%s" % gen, "module": "c19_nested_%s" % gen, "source": NESTED % dict(prelude=S.PRELUDE, opts=opts),
                    "fn": "nested", "required_tags": ["accepted"], "timeout": 240,
                    "bound": "Path(points: list of 2 given packets), Seg(two prototype instances), Shape(callable Ref with a given packet "
                             "holding packets; list of given packets holding packets); in-place changes with symbolic byte values, a "
                             "parse of 5 symbolic bytes in between",
                    "assertion": "a packet constructed after in-place changes of an earlier packet's default content holds the declared "
                                 "default (values and pack()); no nested object is shared; a keyword overrides only the field it names",
                    "decl_text": "Path(count=Int(1, default=2); points=Ref(Pt).repeated(count, default=[Pt(x=1,y=2), Pt(x=3,y=4)])); "
                                 "Seg(begin=Ref(Pt(x=1,y=2)); end=Ref(Pt(x=3,y=4))); Shape(kind; outline=Ref(lambda: Seg(), "
                                 "default=Seg(end=Pt(x=9,y=8))); tags=Ref(Seg).repeated(1, default=[Seg(begin=Pt(x=5,y=6))]))"})
    return {"obligations": obs, "bounds": {"declarations": [e["key"] for e in entries] + ["nested-defaults"]},
            "outside": ["run-time selected references (their default is whatever the user passes)"], "assumptions": []}
