"""C11 The output buffer never loses, overwrites or misplaces bytes.

The histories quantifier is discharged by ONE operation from an ARBITRARY state satisfying the representation
invariant (positions symbolic and UNBOUNDED), plus short real histories that check the invariant is the right one.
`Fragments.fragments` is CrossHair's association-list map (keys compared with ==) so positions stay symbolic.
"""
import itertools

SRC = '''\
from typing import List
from bisturi.fragments import Fragments
from vlib.hx import assume


def new_fragments():
    f = Fragments()
    try:
        from crosshair.statespace import optional_context_statespace
        if optional_context_statespace() is not None:
            from vlib.plugin import symbolic_map
            f.fragments = symbolic_map()
    except ImportError:
        pass
    return f


def mk_chunk(vals, n):
    return bytes(vals[:n]) if all(type(x) is int for x in vals[:n]) else _sym_bytes(vals[:n])


def _sym_bytes(items):
    from crosshair.libimpl.builtinslib import SymbolicBytes
    from crosshair.tracers import NoTracing
    with NoTracing():
        return SymbolicBytes(list(items))


def build_state(lens, pos, data):
    """fragments placed directly (no insert calls): chunk i of length lens[i] at pos[i]; returns (Fragments, chunks)"""
    f = new_fragments()
    chunks = []
    k = 0
    order = []
    for i, n in enumerate(lens):
        c = mk_chunk(data[k:k + n], n)
        k += n
        chunks.append((pos[i], c))
    for p, c in chunks:
        f.fragments[p] = c
    f.begin_of_fragments = [p for p, _ in chunks]
    f.current_offset = 0
    return f, chunks


def occupied(chunks, a, b):
    """some byte of [a, b) is held by a non-empty chunk"""
    for p, c in chunks:
        n = len(c)
        if n > 0 and p < b and a < p + n:
            return True
    return False

LENS = %(lens)r
NEWLEN = %(newlen)d
DUP = %(dup)r


def step(p0: int, gaps: List[int], data: List[int], p: int, new: List[int]) -> str:
    """one insert from an arbitrary valid state"""
    k = len(LENS)
    assume(len(gaps) == k and len(data) == sum(LENS) and len(new) == NEWLEN)
    assume(p0 >= 0 and p >= 0)
    for g in gaps:
        assume(g >= 0)
    for x in data:
        assume(0 <= x <= 255)
    for x in new:
        assume(0 <= x <= 255)
    # positions: sorted; non-empty chunks pairwise disjoint; empty chunks anywhere at or after the previous start
    pos = []
    cur = p0
    prev_end = 0
    for i in range(k):
        start = cur + gaps[i]
        if LENS[i] > 0:
            assume(start >= prev_end)
            prev_end = start + LENS[i]
        if DUP and i == 1:
            start = pos[0]
        elif i > 0:
            assume(gaps[i] >= 1)      # distinct keys (the same-position case is the DUP family)
        pos.append(start)
        cur = start
    f, chunks = build_state(LENS, pos, data)
    if DUP:
        # an empty chunk and a later chunk at the same position share the dict entry: keep the later one
        assume(LENS[0] == 0)
        chunks = chunks[1:]
    s = mk_chunk(new, NEWLEN)
    before = [(q, c) for q, c in chunks]
    hit = occupied(chunks, p, p + NEWLEN)
    try:
        f.insert(p, s)
    except Exception as e:
        if NEWLEN == 0:
            # "an empty chunk only extends that extent": it holds no byte, so no byte of it can be occupied (finding F10)
            return "FAIL sig=C11|empty-chunk-rejected|lens=%%r" %% (LENS,)
        if not hit:
            return "FAIL sig=C11|spurious-collision|lens=%%r new=%%d" %% (LENS, NEWLEN)
        # a rejected insert leaves the buffer as it was
        for q, c in before:
            if f.fragments[q] != c:
                return "FAIL sig=C11|state-changed-by-rejected-insert"
        return "ok:collision"
    if NEWLEN > 0 and hit:
        return "FAIL sig=C11|overwrite-not-detected|lens=%%r new=%%d" %% (LENS, NEWLEN)
    if f.current_offset != p + NEWLEN:
        return "FAIL sig=C11|cursor-not-after-chunk"
    for q, c in before:
        if q == p and NEWLEN >= 0 and len(c) == 0:
            continue   # an empty chunk at the very same position is replaced by the new chunk (same extent)
        if f.fragments[q] != c:
            return "FAIL sig=C11|earlier-bytes-altered-or-dropped|lens=%%r" %% (LENS,)
    if f.fragments[p] != s and not (NEWLEN == 0 and any(q == p for q, c in before)):
        # (an empty chunk landing exactly where a chunk starts stores no byte: the chunk already there must stay - checked
        # above - and the extent is unchanged)
        return "FAIL sig=C11|chunk-not-stored"
    b = f.begin_of_fragments
    if len(b) != len(LENS) + 1:
        return "FAIL sig=C11|start-list-length"
    for i in range(len(b) - 1):
        if b[i] > b[i + 1]:
            return "FAIL sig=C11|start-list-unsorted|lens=%%r" %% (LENS,)
    want = sorted([q for q in pos] + [p])
    if sorted(b) != want:
        return "FAIL sig=C11|start-list-differs-from-keys"
    return "ok:stored"


def render(p0: int, gaps: List[int], data: List[int]) -> str:
    """tobytes() of an arbitrary valid state (gaps 0..3): stored bytes at their positions, '.' in holes, length = max end"""
    k = len(LENS)
    assume(len(gaps) == k and len(data) == sum(LENS))
    assume(0 <= p0 <= 3)
    for g in gaps:
        assume(0 <= g <= 3)
    for x in data:
        assume(0 <= x <= 255)
    pos = []
    cur = p0
    prev_end = 0
    for i in range(k):
        start = cur + gaps[i]
        if LENS[i] > 0:
            assume(start >= prev_end)
            prev_end = start + LENS[i]
        pos.append(start)
        cur = start
    assume(len(set(pos)) == len(pos))
    f, chunks = build_state(LENS, pos, data)
    out = f.tobytes()
    extent = 0
    for q, c in chunks:
        if q + len(c) > extent:
            extent = q + len(c)
    if len(out) != extent:
        return "FAIL sig=C11|tobytes-length|lens=%%r out=%%r extent=%%r" %% (LENS, out, extent)
    for i in range(len(out)):
        want = 46
        for q, c in chunks:
            if q <= i < q + len(c):
                want = c[i - q]
        if out[i] != want:
            return "FAIL sig=C11|tobytes-byte-misplaced|lens=%%r index=%%d out=%%r" %% (LENS, i, out)
    return "ok:rendered"
'''

HIST = '''\
from typing import List
from bisturi.fragments import Fragments
from vlib.hx import assume
%(helpers)s

OPS = %(ops)r


def hist(ps: List[int], data: List[int]) -> str:
    """a real history of append / extend / insert from the empty buffer vs a sparse-array reference"""
    assume(len(ps) == len(OPS) and len(data) == %(ndata)d)
    for x in ps:
        assume(0 <= x <= %(pmax)d)
    for x in data:
        assume(0 <= x <= 255)
    f = new_fragments()
    chunks = []      # reference: (position, bytes) of every stored chunk
    extent = 0
    cursor = 0
    k = 0
    for i, (kind, n) in enumerate(OPS):
        c = mk_chunk(data[k:k + n], n)
        k += n
        if kind == "insert":
            p = ps[i]
        else:
            p = cursor
        hit = occupied(chunks, p, p + n)
        try:
            if kind == "insert":
                f.insert(p, c)
            elif kind == "append":
                f.append(c)
            else:
                f.extend([c[:1], c[1:]])
        except Exception:
            if n == 0:
                continue
            if not hit:
                return "FAIL sig=C11|spurious-collision|history=%%r step=%%d" %% (OPS, i)
            if kind == "extend" and not occupied(chunks, p, p + 1):
                chunks.append((p, c[:1]))
                cursor = p + 1
                if cursor > extent:
                    extent = cursor
            continue
        if n > 0 and hit:
            return "FAIL sig=C11|overwrite-not-detected|history=%%r step=%%d" %% (OPS, i)
        chunks.append((p, c))
        cursor = p + n
        if cursor > extent:
            extent = cursor
        if f.current_offset != cursor:
            return "FAIL sig=C11|cursor-not-after-chunk|history=%%r step=%%d" %% (OPS, i)
    out = f.tobytes()
    if len(out) != extent:
        return "FAIL sig=C11|tobytes-length|history=%%r out=%%r extent=%%r" %% (OPS, out, extent)
    for j in range(len(out)):
        want = 46
        for q, c in chunks:
            if q <= j < q + len(c):
                want = c[j - q]
        if out[j] != want:
            return "FAIL sig=C11|tobytes-byte-misplaced|history=%%r index=%%d out=%%r" %% (OPS, j, out)
    return "ok:history"
'''


def build(tier, seed):
    obs = []
    lens_choices = [0, 1, 2, 3, 4] if tier != "quick" else [0, 1, 2, 3]
    kmax = 3
    helpers = SRC.split("LENS = ")[0].split("from vlib.hx import assume\n", 1)[1]
    # inductive step
    for k in range(0, kmax + 1):
        for lens in itertools.product(lens_choices if k < 3 else lens_choices[:-1], repeat=k):
            for newlen in lens_choices:
                src = SRC % dict(lens=list(lens), newlen=newlen, dup=False)
                lid = "".join(map(str, lens)) or "empty"
                obs.append({"id": "C11/step/%s+%d" % (lid, newlen), "module": "c11_step_%s_%d" % (lid, newlen), "source": src,
                            "fn": "step", "required_tags": ["stored"] + (["collision"] if (newlen and any(lens)) else []),
                            "bound": "pre-state: %d fragments of lengths %s at symbolic UNBOUNDED sorted positions (non-empty disjoint, "
                                     "empty anywhere), symbolic contents; insert of %d symbolic bytes at a symbolic unbounded position"
                                     % (k, list(lens), newlen),
                            "assertion": "raises <=> (non-empty and an occupied byte intersects); else stored exactly, cursor = p+len, "
                                         "earlier chunks unaltered, start list sorted and equal to the keys",
                            "decl_text": "Fragments.insert"})
    # same position: empty chunk then another chunk
    for l1 in lens_choices:
        for newlen in lens_choices[:3]:
            src = SRC % dict(lens=[0, l1], newlen=newlen, dup=True)
            obs.append({"id": "C11/step-dup/0%d+%d" % (l1, newlen), "module": "c11_stepdup_%d_%d" % (l1, newlen), "source": src,
                        "fn": "step", "required_tags": ["stored"],
                        "bound": "pre-state with an empty chunk and a chunk of length %d at the SAME symbolic position (duplicate entry in "
                                 "the start list), then insert of %d bytes" % (l1, newlen),
                        "assertion": "as above", "decl_text": "Fragments.insert"})
    # tobytes
    for k in range(0, kmax + 1):
        for lens in itertools.product(lens_choices[:-1], repeat=k):
            src = SRC % dict(lens=list(lens), newlen=0, dup=False)
            lid = "".join(map(str, lens)) or "empty"
            obs.append({"id": "C11/render/%s" % lid, "module": "c11_render_%s" % lid, "source": src, "fn": "render",
                        "required_tags": ["rendered"],
                        "bound": "state of %d fragments of lengths %s, first position and gaps symbolic in [0,3], contents symbolic" % (k, list(lens)),
                        "assertion": "len == largest end; every stored byte at its position; '.' in every hole", "decl_text": "Fragments.tobytes"})
    # bounded real histories
    hl = 3 if tier == "quick" else 4
    kinds = [("insert", 0), ("insert", 1), ("insert", 2), ("append", 1), ("append", 0), ("extend", 2)]
    hists = list(itertools.product(kinds, repeat=hl))
    if tier == "quick":
        hists = [h for i, h in enumerate(hists) if i % 2 == seed % 2]
    batch = 12
    for b in range(0, len(hists), batch):
        for j, h in enumerate(hists[b:b + batch]):
            pass
    for i, h in enumerate(hists):
        src = HIST % dict(helpers=helpers, ops=list(h), ndata=sum(n for _, n in h), pmax=5)
        obs.append({"id": "C11/hist/%04d" % i, "module": "c11_hist_%04d" % i, "source": src, "fn": "hist", "required_tags": ["history"],
                    "bound": "history %s from the empty buffer; insert positions symbolic in [0,5], contents symbolic" % (list(h),),
                    "assertion": "each step raises <=> occupied; final tobytes == sparse-array reference", "decl_text": str(list(h)),
                    "timeout": 90 if tier == "quick" else 400})
    return {"obligations": obs,
            "bounds": {"inductive_step": "<=%d prior fragments, chunk lengths %s, positions unbounded" % (kmax, lens_choices),
                       "histories": "all (quick: every second) sequences of %d ops over %s, positions in [0,5]" % (hl, kinds)},
            "outside": ["more than 3 prior fragments in the inductive step", "chunk lengths > %d" % max(lens_choices),
                        "inserting an EMPTY chunk inside an occupied region (the property leaves it open; bisturi raises)"],
            "assumptions": ["representation invariant of the pre-state: start list sorted, non-empty chunks pairwise disjoint "
                            "(empty chunks anywhere) - the states real histories produce after fix 2962074"]}
