"""C20 Packet equality is structural and total."""
from vlib.catalogue import select
from vlib.catobs import obligations

EXTRA = '''
class OtherPacket(Packet):
    __bisturi__ = {'generate_for_pack': False, 'generate_for_unpack': False}
    a = Int(1)
'''

FN = '''
def e_T%(T)d(raw: bytes, off: int, d: int, c: int) -> str:
    raw = fix(raw, %(T)d)
    assume(0 <= off <= %(offhi)d)
    assume(d != 0)
    assume(0 <= c <= 255)
    return H.h_equality(SPEC, CLS, OtherPacket, raw, off, KEY, d, c)
'''


def build(tier, seed):
    entries = [e for e in select(tier) if "P" not in e["tags"] and "noaccept" not in e["tags"]]
    if tier == "quick":
        keep = {"move", "em", "ref", "seq", "opt", "tail", "bits", "size"}
        entries = [e for e in entries if e["tags"] & keep and not ("marker" in e["tags"] and "sbl" in e["tags"])]
        # list / nested comparisons multiply paths: the quick tier keeps the flat positioned / placeholder declarations
        # (the subject of this property) and a few representatives of lists, optionals and nesting
        entries = [e for e in entries if "ctl8" not in e["tags"] and not e["key"].startswith("g_bridge")]
    obs = []
    for e in entries:
        lmax = e["lq"] if tier == "quick" else e["lt"]
        offhi = 0 if e["decl"].absolute_positioning() else 1
        lengths = [lmax - 1, lmax, lmax + offhi] if tier == "quick" else list(range(max(0, lmax - 3), lmax + offhi + 1))
        lengths = sorted(set(x for x in lengths if x >= 0))
        for gen in ("generic", "generated"):
            extra = EXTRA + "".join(FN % dict(T=T, offhi=min(offhi, T)) for T in lengths)
            base = obligations("C20", [e], tier, "'ok:unused'", gens=(gen,), lengths=[0], extra_src=extra.replace("KEY", repr(e["key"])))[0]
            base.update({"fn": ["e_T%d" % T for T in lengths], "required_tags": ["accepted"],
                         "bound": "raw of total length in %s, offset in [0,%d]; new values: old + d (d unbounded non-zero int), old + b'!'" % (lengths, offhi),
                         "assertion": "two parses of the same bytes are ==, != is the negation, repr() works, different class / non-packet "
                                      "is unequal, none raises; changing any one value-bearing field (also one level down) makes them unequal"})
            obs.append(base)
    return {"obligations": obs, "bounds": {"declarations": [e["key"] for e in entries]},
            "outside": ["lists of nested packets are changed by dropping the last element only"], "assumptions": []}
