"""C20 Packet equality is structural and total."""
from vlib.catalogue import select
from vlib.catobs import obligations

EXTRA = '''
class OtherPacket(Packet):
    __bisturi__ = {'generate_for_pack': False, 'generate_for_unpack': False}
    a = Int(1)
'''

FN = '''
def e_T%(T)d(raw: bytes, off: int, d: int, c: int) -> str:
    raw = fix(raw, %(T)d)
    assume(0 <= off <= %(offhi)d)
    assume(d != 0)
    assume(0 <= c <= 255)
    return H.h_equality(SPEC, CLS, OtherPacket, raw, off, KEY, d, c)
'''


# value-bearing fields the field list names differently from the attribute: described fields (stored under
# _described_<name>) and fields whose own name starts with an underscore
DESCRIBED = '''%(prelude)s
from bisturi.descriptor import Auto, AutoLength
from vlib.hx import total_repr


class Msg(Packet):
    __bisturi__ = {%(opts)s}
    kind = Int(1)
    length = Int(1).describe(AutoLength('payload'))
    payload = Data(until_marker=b'\\x00')


class Und(Packet):
    __bisturi__ = {%(opts)s}
    _reserved = Int(1)
    v = Int(1)
    _tail = Data(1)


class Sum(Packet):
    __bisturi__ = {%(opts)s}
    a = Int(1)
    n = Int(1).describe(Auto(lambda pkt: pkt.a))      # (no arithmetic: CrossHair runs 3-argument getattr untraced)


NAMES = {"Msg": ("kind", "length", "payload"), "Und": ("_reserved", "v", "_tail"), "Sum": ("a", "n")}


def _vals(p):
    return tuple(getattr(p, n) for n in NAMES[type(p).__name__])


def _cmp(p, q, what):
    try:
        eq, ne = (p == q), (p != q)
    except Exception as e:
        return None, "FAIL sig=C20|comparison-or-repr-raises-%%s|x_described|%%s" %% (type(e).__name__, what)
    if eq is not True and eq is not False or ne is not (not eq):
        return None, "FAIL sig=C20|ne-is-not-the-negation|x_described|%%s" %% what
    return eq, None


def _mk_pair(cls, T):
    def h(r1: bytes, r2: bytes) -> str:
        r1 = fix(r1, T)
        r2 = fix(r2, T)
        p = cls.unpack(r1, silent=True)
        q = cls.unpack(r2, silent=True)
        if p is None or q is None:
            return "ok:rejected"
        eq, fail = _cmp(p, q, cls.__name__)
        if fail:
            return fail
        if _vals(p) != _vals(q) and eq:
            return "FAIL sig=C20|difference-not-detected|x_described|%%s %%r vs %%r" %% (cls.__name__, _vals(p), _vals(q))
        return "ok:accepted"
    return h


def _mk_mod(cls, T, name):
    def h(r1: bytes, d: int) -> str:
        r1 = fix(r1, T)
        assume(d != 0)
        p = cls.unpack(r1, silent=True)
        if p is None:
            return "ok:rejected"
        twin = cls.unpack(r1)
        eq, fail = _cmp(p, twin, cls.__name__)
        if fail:
            return fail
        if not eq:
            return "FAIL sig=C20|equal-packets-compare-unequal|x_described|%%s" %% cls.__name__
        # changing one field of the twin (an explicit value for a described one) makes them unequal
        old = getattr(twin, name)
        setattr(twin, name, old + d if isinstance(old, int) else old + b"!")
        eq, fail = _cmp(p, twin, cls.__name__ + "." + name)
        if fail:
            return fail
        if eq:
            return "FAIL sig=C20|difference-not-detected|x_described|%%s.%%s" %% (cls.__name__, name)
        try:
            total_repr(p)
        except Exception as e:
            return "FAIL sig=C20|comparison-or-repr-raises-%%s|x_described|repr" %% type(e).__name__
        return "ok:accepted"
    return h


HARNESSES = {}
for _cls, _T in ((Msg, 4), (Und, 3), (Sum, 2)):
    HARNESSES["%%s_pair" %% _cls.__name__] = _mk_pair(_cls, _T)
    for _n in NAMES[_cls.__name__]:
        HARNESSES["%%s_mod_%%s" %% (_cls.__name__, _n)] = _mk_mod(_cls, _T, _n)
'''


def _described_obligations():
    from vlib import spec as S
    obs = []
    for gen, opts in (("generic", "'generate_for_pack': False, 'generate_for_unpack': False"), ("generated", "")):
      for cname, names in (("Msg", ("kind", "length", "payload")), ("Und", ("_reserved", "v", "_tail")), ("Sum", ("a", "n"))):
        obs.append({"id": "C20/x_described/%s/%s" % (cname, gen), "module": "c20_x_described_%s_%s" % (cname.lower(), gen),
                    "source": DESCRIBED % dict(prelude=S.PRELUDE, opts=opts),
                    "fn": ["%s_pair" % cname] + ["%s_mod_%s" % (cname, n) for n in names], "required_tags": ["accepted"],
                    "timeout": 240,
                    "bound": "Msg (AutoLength-described length), Und (fields named with a leading underscore), Sum (Auto-described): two "
                             "packets parsed from two symbolic strings of 4 / 3 / 2 bytes; one field changed by a symbolic non-zero d / b'!'",
                    "assertion": "attribute values differ => unequal; same bytes => equal; != is the negation; one changed field (described "
                                 "or underscore-named) => unequal; none raises",
                    "decl_text": "Msg(kind; length=Int(1).describe(AutoLength('payload')); payload=Data(until NUL)); "
                                 "Und(_reserved; v; _tail=Data(1)); Sum(a; n=Int(1).describe(Auto(lambda pkt: pkt.a)))"})
    return obs


def build(tier, seed):
    entries = [e for e in select(tier) if "P" not in e["tags"] and "noaccept" not in e["tags"]]
    if tier == "quick":
        keep = {"move", "em", "ref", "seq", "opt", "tail", "bits", "size"}
        entries = [e for e in entries if e["tags"] & keep and not ("marker" in e["tags"] and "sbl" in e["tags"])]
        # list / nested comparisons multiply paths: the quick tier keeps the flat positioned / placeholder declarations
        # (the subject of this property) and a few representatives of lists, optionals and nesting
        entries = [e for e in entries if "ctl8" not in e["tags"] and not e["key"].startswith("g_bridge")]
    obs = []
    for e in entries:
        lmax = e["lq"] if tier == "quick" else e["lt"]
        offhi = 0 if e["decl"].absolute_positioning() else 1
        lengths = [lmax - 1, lmax, lmax + offhi] if tier == "quick" else list(range(max(0, lmax - 3), lmax + offhi + 1))
        lengths = sorted(set(x for x in lengths if x >= 0))
        for gen in ("generic", "generated"):
            extra = EXTRA + "".join(FN % dict(T=T, offhi=min(offhi, T)) for T in lengths)
            base = obligations("C20", [e], tier, "'ok:unused'", gens=(gen,), lengths=[0], extra_src=extra.replace("KEY", repr(e["key"])))[0]
            base.update({"fn": ["e_T%d" % T for T in lengths], "required_tags": ["accepted"],
                         "bound": "raw of total length in %s, offset in [0,%d]; new values: old + d (d unbounded non-zero int), old + b'!'" % (lengths, offhi),
                         "assertion": "two parses of the same bytes are ==, != is the negation, repr() works, different class / non-packet "
                                      "is unequal, none raises; changing any one value-bearing field (also one level down) makes them unequal"})
            obs.append(base)
    obs += _described_obligations()
    return {"obligations": obs, "bounds": {"declarations": [e["key"] for e in entries] + ["x_described"]},
            "outside": ["lists of nested packets are changed by dropping the last element only"], "assumptions": []}
