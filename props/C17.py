"""C17 Auto/AutoLength fields always read and serialize consistently.

Enumerated: all operation histories (construct with / without the keyword, then up to N of: set tracked field, set
            described field, delete described field, unpack, pack) x {AutoLength over Data, AutoLength over a sequence,
            Auto(lambda)} x {generic, generated};  after EVERY step the attribute is read and the packet is packed.
Symbolic  : every assigned value (explicit ints UNBOUNDED, tracked contents, unpacked bytes).
Oracle    : two-variable state machine  (explicit value | none, tracked value).
"""
import itertools

SRC = '''\
from bisturi.packet import Packet, PacketError
from bisturi.field import Int, Data, Bits
from bisturi.descriptor import Auto, AutoLength
from vlib.hx import assume

OPTS = {%(opts)s}


class AL(Packet):
    __bisturi__ = dict(OPTS)
    n = Int(1).describe(AutoLength('d'))
    d = Data(n)


class AS(Packet):
    __bisturi__ = dict(OPTS)
    n = Int(1).describe(AutoLength('s'))
    s = Int(1).repeated(n)


class AB(Packet):
    __bisturi__ = dict(OPTS)
    n = Bits(4).describe(AutoLength('d'))
    p = Bits(4)
    d = Data(n)


class AF(Packet):
    __bisturi__ = dict(OPTS)
    a = Int(1)
    n = Int(1).describe(Auto(lambda pkt: (pkt.a * 2 + 1) %% 256))


KIND = %(kind)r
CLS = {"AL": AL, "AS": AS, "AF": AF, "AB": AB}[KIND]
TRACKED = {"AL": "d", "AS": "s", "AF": "a", "AB": "d"}[KIND]


def computed(tracked):
    if KIND == "AF":
        return (tracked * 2 + 1) %% 256
    return len(tracked)


def tracked_value(t, a):
    """a value for the tracked field from the symbolic inputs of one step"""
    if KIND in ("AL", "AB"):
        return t
    if KIND == "AS":
        return [x for x in t]
    return a


def encode(n, tracked):
    """expected wire image: the described byte, then the tracked field"""
    if KIND == "AL":
        return bytes([n]) + tracked
    if KIND == "AB":
        return bytes([n * 16]) + tracked      # n in the high nibble, the untouched p = 0 in the low one
    if KIND == "AS":
        return bytes([n]) + bytes(tracked)
    return bytes([tracked]) + bytes([n])


def default_tracked():
    return {"AL": b"", "AS": [], "AF": 0, "AB": b""}[KIND]


def check(p, explicit, tracked, step):
    want = explicit if explicit is not None else computed(tracked)
    try:
        got = p.n
    except Exception as e:
        return "FAIL sig=C17|read-raises-%%s|%%s step=%%d" %% (type(e).__name__, KIND, step)
    if got != want:
        return "FAIL sig=C17|attribute-reads-wrong-value|%%s step=%%d got=%%r want=%%r explicit=%%r" %% (KIND, step, got, want, explicit)
    if hasattr(p, "__dict__"):
        return "FAIL sig=C17|instance-has-dict|%%s" %% KIND
    representable = 0 <= want <= 255
    try:
        out = p.pack()
    except PacketError:
        if representable and (KIND != "AF" or 0 <= tracked <= 255):
            return "FAIL sig=C17|pack-rejects-readable-value|%%s step=%%d want=%%r" %% (KIND, step, want)
        return None
    if not representable:
        return "FAIL sig=C17|unrepresentable-value-packed|%%s step=%%d want=%%r out=%%r" %% (KIND, step, want, out)
    exp = encode(want, tracked)
    if out != exp:
        return "FAIL sig=C17|pack-differs-from-attribute|%%s step=%%d out=%%r want=%%r" %% (KIND, step, out, exp)
    # packing does not change what the attribute reads as
    if p.n != want:
        return "FAIL sig=C17|pack-changes-attribute|%%s step=%%d" %% (KIND, step)
    return None


def run(history, vs, ts, as_):
    """history: tuple of op letters; vs/ts/as_: per-step symbolic ints / bytes / small ints"""
    explicit, tracked = None, default_tracked()
    p = None
    for i, op in enumerate(history):
        v, t, a = vs[i], ts[i], as_[i]
        if op == "c":
            p = CLS()
            explicit, tracked = None, default_tracked()
        elif op == "C":
            p = CLS(n=v)
            explicit, tracked = v, default_tracked()
        elif op == "K":
            tv = tracked_value(t, a)
            p = CLS(**{TRACKED: tv})
            explicit, tracked = None, tv
        elif op == "T":
            tv = tracked_value(t, a)
            setattr(p, TRACKED, tv)
            tracked = tv
        elif op == "S":
            p.n = v
            explicit = v
        elif op == "D":
            del p.n
            explicit = None
        elif op == "U":
            tv = tracked_value(t, a)
            wire = encode(computed(tv) if KIND != "AF" else (v %% 256), tv)
            try:
                p = CLS.unpack(wire)
            except PacketError:
                return "FAIL sig=C17|valid-encoding-rejected|%%s wire=%%r" %% (KIND, wire)
            explicit, tracked = None, tv
        elif op == "P":
            try:
                p.pack()
            except PacketError:
                pass
        r = check(p, explicit, tracked, i)
        if r is not None:
            return r + " history=" + "".join(history)
    return None


HISTORIES = %(histories)r


def _mk(ix):
    hist = HISTORIES[ix]
    n = len(hist)

    def h(v0: int, v1: int, v2: int, v3: int, v4: int, v5: int, t0: bytes, t1: bytes, t2: bytes, t3: bytes, t4: bytes, t5: bytes,
          a0: int, a1: int, a2: int, a3: int, a4: int, a5: int) -> str:
        ts = [t0, t1, t2, t3, t4, t5]
        as_ = [a0, a1, a2, a3, a4, a5]
        for i in range(6):
            if i < n and hist[i] in "TUK":
                if KIND == "AF":
                    assume(0 <= as_[i] <= 255)
                else:
                    assume(len(ts[i]) <= 2)
            if KIND == "AB" and i < n and hist[i] in "SC":
                # a bit field given a value outside its range is reduced mod 2**w (C07): explicit values stay inside it
                assume(0 <= [v0, v1, v2, v3, v4, v5][i] <= 15)
        r = run(hist, [v0, v1, v2, v3, v4, v5], ts, as_)
        return r if r is not None else "ok:consistent"
    return h


HARNESSES = dict(("h%%d" %% i, _mk(i)) for i in range(len(HISTORIES)))
'''


def build(tier, seed):
    n = 3 if tier == "quick" else 4
    steps = "TSDUP"
    obs = []
    for kind in ("AL", "AS", "AF", "AB"):
        for gen, opts in (("generic", "'generate_for_pack': False, 'generate_for_unpack': False"), ("generated", "")):
            for init in "cCK":
                for first in steps:
                    seconds = [""] if tier == "quick" else list(steps)
                    for second in seconds:
                        if second:
                            hists = [(init, first, second) + rest for rest in itertools.product(steps, repeat=n - 2)]
                        else:
                            hists = [(init, first) + rest for rest in itertools.product(steps, repeat=n - 1)]
                        src = SRC % dict(opts=opts, kind=kind, histories=hists)
                        tag = init + first + second
                        obs.append({"id": "C17/%s/%s/%s" % (kind, gen, tag), "module": "c17_%s_%s_%s" % (kind.lower(), gen, tag),
                                    "source": src, "fn": ["h%d" % i for i in range(len(hists))], "required_tags": ["consistent"],
                                    "timeout": 240 if tier == "quick" else 900,
                                    "bound": "all %d histories starting %s followed by %d more ops over {T set tracked, S set described, D delete, "
                                             "U unpack, P pack}; explicit values unbounded ints (0..15 for the Bits kind AB), tracked contents <=2 symbolic bytes / a byte"
                                             % (len(hists), tag, 1 + n - len(tag)),
                                    "assertion": "after every step: attribute == explicit ?? f(tracked); pack() serialises exactly that (PacketError "
                                                 "iff not representable); no instance __dict__; pack leaves the attribute unchanged",
                                    "decl_text": {"AL": "n = Int(1).describe(AutoLength('d')); d = Data(n)",
                                                  "AS": "n = Int(1).describe(AutoLength('s')); s = Int(1).repeated(n)",
                                                  "AF": "a = Int(1); n = Int(1).describe(Auto(lambda pkt: (pkt.a*2+1) % 256))",
                                                  "AB": "n = Bits(4).describe(AutoLength('d')); p = Bits(4); d = Data(n)"}[kind]})
    return {"obligations": obs,
            "bounds": {"history_length": 1 + n, "initial": "c (no keyword), C (described keyword), K (tracked keyword)", "ops": steps},
            "outside": ["histories longer than %d operations" % (1 + n), "tracked contents longer than 2 bytes / elements"],
            "assumptions": []}
