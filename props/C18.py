"""C18 The regexp pre-filter never rejects a matching packet.

Enumerated: flat declarations over Int, Bits, Data (sizing modes: constant, field, expression, bytes marker kept / not
            kept, kept regex, EOS) x EVERY subset of fields left as Any x literal values that stress escaping (regex
            metacharacters, NUL, newline, 0xff, bit patterns with fixed high / low / mixed bits).
Symbolic  : the candidate byte string (every length up to the bound).
Assertion : pattern == Cls.unpack(raw)  =>  pattern.as_regular_expression().match(raw); building the expression never
            raises; filter(..., True) == filter(..., False) on a corpus of symbolic strings.
"""
import itertools

STRESS_BYTES = [0x2e, 0x5c, 0x00, 0x5d, 0x0a, 0x2a, 0x5b, 0xff, 0x5e, 0x24, 0x2d, 0x28, 0x7c, 0x41, 0x3f, 0x7b, 0x29, 0x2b, 0x7d, 0x20]

DECLS = {
    "k_ints": ("a = Int(1)\n    b = Int(2)\n    c = Int(3, endianness='little')",
               [("a", "int", 1), ("b", "int", 2), ("c", "int", 3)], 6),
    "k_bits": ("x = Bits(2)\n    y = Bits(3)\n    z = Bits(3)\n    w = Bits(4)\n    v = Bits(4)",
               [("x", "bits", 2), ("y", "bits", 3), ("z", "bits", 3), ("w", "bits", 4), ("v", "bits", 4)], 2),
    "k_bits16": ("x = Bits(5)\n    y = Bits(6)\n    z = Bits(5)\n    t = Int(1)",
                 [("x", "bits", 5), ("y", "bits", 6), ("z", "bits", 5), ("t", "int", 1)], 3),
    "k_len": ("n = Int(1)\n    d = Data(n)\n    z = Int(1)",
              [("n", "len", "d"), ("d", "data", None), ("z", "int", 1)], 5),
    "k_expr": ("n = Bits(3)\n    p = Bits(5)\n    d = Data(n * 2)\n    z = Int(1)",
               [("n", "halflen", "d"), ("p", "bits", 5), ("d", "data2", None), ("z", "int", 1)], 5),
    "k_const": ("a = Int(1)\n    d = Data(2)\n    z = Int(1)",
                [("a", "int", 1), ("d", "dataconst", 2), ("z", "int", 1)], 4),
    "k_mark": ("d = Data(until_marker=b'\\x00')\n    e = Data(until_marker=b'ab', include_delimiter=True)\n    z = Int(1)",
               [("d", "datamark", b"\x00"), ("e", "datainc", b"ab"), ("z", "int", 1)], 6),
    "k_meta_mark": ("d = Data(until_marker=b'.*')\n    z = Int(1)",
                    [("d", "datamark", b".*"), ("z", "int", 1)], 5),
    "k_meta_mark2": ("d = Data(until_marker=b'a+')\n    e = Data(until_marker=b'(', include_delimiter=True)\n    z = Int(1)",
                     [("d", "datamark", b"a+"), ("e", "datainc2", b"("), ("z", "int", 1)], 6),
    "k_regex_kept": ("a = Int(1)\n    d = Data(until_marker=re.compile(b'X+'), include_delimiter=True)\n    z = Int(1)",
                     [("a", "int", 1), ("d", "dataregex", b"X"), ("z", "int", 1)], 5),
    "k_eos": ("a = Int(1)\n    d = Data(until_marker=EOS)",
              [("a", "int", 1), ("d", "dataeos", None)], 4),
}

SRC = '''\
import re
from bisturi.packet import Packet, PacketError
from bisturi.field import Int, Data, Bits, Ref, EOS
from bisturi.pattern_matching import Any, filter as pm_filter, filter_like
from vlib.hx import assume, fix


class K(Packet):
    __bisturi__ = {%(opts)s}
    %(body)s


PATTERNS = %(patterns)r     # list of {field: literal value} (fields not named are Any)
FIELDS = %(fields)r


def make_pattern(lits):
    p = K()
    for name in FIELDS:
        setattr(p, name, lits[name] if name in lits else Any())
    return p


def build_all() -> str:
    """building the expression never fails, whatever subset of fields is Any"""
    for lits in PATTERNS:
        try:
            make_pattern(lits).as_regular_expression()
        except Exception as e:
            return "FAIL sig=C18|building-the-expression-raises-%%s|%(key)s any=%%r" %% (
                type(e).__name__, sorted(set(FIELDS) - set(lits)))
    return "ok:built"


def _warm_up():
    """every pattern is turned into an expression once when the module is imported (in the exploration AND in the replay
    process alike): whatever the library memoises per class / field from one pattern is in place when another is checked"""
    for lits in PATTERNS:
        try:
            make_pattern(lits).as_regular_expression()
        except Exception:
            pass


_warm_up()


def _check(ix, raw):
    lits = PATTERNS[ix]
    pattern = make_pattern(lits)
    try:
        rx = pattern.as_regular_expression()
    except Exception as e:
        return "ok:not-buildable"      # reported by build_all
    p = K.unpack(raw, silent=True)
    if p is None:
        return "ok:not-a-packet"
    if not (pattern == p):
        return "ok:different-packet"
    if rx.match(raw) is None:
        return "FAIL sig=C18|regexp-rejects-a-matching-packet|%(key)s literals=%%r regexp=%%r raw=%%r" %% (lits, rx.pattern, raw)
    return "ok:matched"


def _mk(ix, T):
    def h(raw: bytes) -> str:
        raw = fix(raw, T)
        return _check(ix, raw)
    return h


HARNESSES = {}
for _ix in range(len(PATTERNS)):
    for _T in %(lengths)r:
        HARNESSES["m%%d_T%%d" %% (_ix, _T)] = _mk(_ix, _T)


def _corpus(ix, r1, r2):
    """filter() returns the same packets with and without the regexp pre-filter"""
    r1 = fix(r1, %(c1)d)
    r2 = fix(r2, %(c2)d)
    pattern = make_pattern(PATTERNS[ix])
    try:
        pattern.as_regular_expression()
    except Exception:
        return "ok:not-buildable"
    with_rx = [q.pack() for q in pm_filter(pattern, [r1, r2], filter_with_regexp_first=True)]
    without = [q.pack() for q in pm_filter(pattern, [r1, r2], filter_with_regexp_first=False)]
    if with_rx != without:
        return "FAIL sig=C18|filter-results-differ|%(key)s literals=%%r" %% (PATTERNS[ix],)
    return "ok:same"


def _mkc(ix):
    def h(r1: bytes, r2: bytes) -> str:
        return _corpus(ix, r1, r2)
    return h


for _ix in range(min(len(PATTERNS), %(ncorpus)d)):
    HARNESSES["c%%d" %% _ix] = _mkc(_ix)
'''


def literal(kind, arg, j, i):
    b = STRESS_BYTES[(j * 3 + i) % len(STRESS_BYTES)]
    b2 = STRESS_BYTES[(j * 5 + i + 7) % len(STRESS_BYTES)]
    if kind == "int":
        v = 0
        for q in range(arg):
            v = v * 256 + STRESS_BYTES[(j * 3 + i + q) % len(STRESS_BYTES)]
        return v
    if kind == "bits":
        return (b * 7 + j) % (1 << arg)
    if kind == "len":
        return [0, 1, 2, 1][j % 4]
    if kind == "halflen":
        return [0, 1, 1, 0][j % 4]
    if kind == "data":
        return [b"", bytes([b]), bytes([b, b2]), bytes([b2])][j % 4]
    if kind == "data2":
        return [b"", bytes([b, b2]), bytes([b2, b]), b""][j % 4]
    if kind == "dataconst":
        return bytes([b, b2][:arg]) if arg <= 2 else bytes([b] * arg)
    if kind == "datamark":
        body = [b"", bytes([b]), bytes([b, b2]), b"a"][j % 4]
        return body if arg not in body and not (body + arg[:1]).endswith(arg) else b"q"
    if kind == "datainc":
        return [b"ab", b"." + b"ab", b"\\ab", b"aab"][j % 4]
    if kind == "datainc2":
        return [b"(", b".(", b"\\(", b"[("][j % 4]
    if kind == "dataregex":
        return [b"X", b".XX", b"\\X", b"aXXX"][j % 4]
    if kind == "dataeos":
        return [b"", bytes([b]), bytes([b, b2]), b"$"][j % 4]
    raise ValueError(kind)


ALLVAL = {
    # every value of the fixed part of a partly fixed byte (the other field is Any): all 2**w literals
    "k_all_1_7": ("x = Bits(1)\n    y = Bits(7)", "y", 7, ["x", "y"], 1),
    "k_all_7_1": ("x = Bits(7)\n    y = Bits(1)", "x", 7, ["x", "y"], 1),
    "k_all_4_4": ("x = Bits(4)\n    y = Bits(4)", "x", 4, ["x", "y"], 1),
    "k_all_2_3_3": ("x = Bits(2)\n    y = Bits(3)\n    z = Bits(3)", "y", 3, ["x", "y", "z"], 1),
    "k_all_int1": ("a = Int(1)\n    d = Data(1)", "a", 8, ["a", "d"], 2),
}


def build(tier, seed):
    obs = []
    nlit = 3 if tier == "quick" else 4
    for key, (body, fixed, w, names, lmax) in ALLVAL.items():
        patterns = [{fixed: v} for v in range(1 << w)]
        src = SRC % dict(opts="'generate_for_pack': False, 'generate_for_unpack': False", body=body, patterns=patterns, fields=names,
                         key=key, lengths=[lmax], lmax=lmax, ncorpus=0, c1=lmax, c2=max(0, lmax - 1))
        base = {"module": "c18_%s" % key, "source": src, "decl_text": "class K(Packet):\n    " + body}
        obs.append(dict(base, id="C18/%s/build" % key, fn="build_all", required_tags=["built"], symbolic=False,
                        bound="all %d values of field %s, the other field(s) Any" % (1 << w, fixed), assertion="as_regular_expression() does not raise"))
        for b in range(0, len(patterns), 32):
            fns = ["m%d_T%d" % (ix, lmax) for ix in range(b, min(len(patterns), b + 32))]
            obs.append(dict(base, id="C18/%s/match-%02d" % (key, b // 32), fn=fns, required_tags=["matched"],
                            bound="literal values %d..%d of %s (ALL values are covered across the batches); candidate raw symbolic (%d byte)"
                                  % (b, b + 31, fixed, lmax), assertion="pattern == unpack(raw)  =>  regexp matches raw"))
    for key, (body, fields, lmax) in DECLS.items():
        names = [f[0] for f in fields]
        patterns = []
        for mask in range(1 << len(fields)):
            for j in range(nlit):
                jj = (j + seed) % 4
                lits = {}
                for i, (name, kind, arg) in enumerate(fields):
                    if (mask >> i) & 1:
                        lits[name] = literal(kind, arg, jj, i)
                # keep length fields consistent with literal data (a pattern that can match something)
                for i, (name, kind, arg) in enumerate(fields):
                    if kind == "len" and name in lits and arg in lits:
                        lits[name] = len(lits[arg])
                    if kind == "halflen" and name in lits and arg in lits:
                        lits[name] = len(lits[arg]) // 2
                if lits not in patterns:
                    patterns.append(lits)
        lengths = list(range(0, lmax + 1)) if tier == "quick" else list(range(0, lmax + 2))
        for gen, opts in (("generic", "'generate_for_pack': False, 'generate_for_unpack': False"), ("generated", "")):
            src = SRC % dict(opts=opts, body=body, patterns=patterns, fields=names, key=key, lengths=lengths, lmax=lmax,
                             ncorpus=4 if tier == "quick" else 12,
                             c1=lmax if "mark" not in key and "regex" not in key else 3,
                             c2=lmax - 1 if "mark" not in key and "regex" not in key else 2)
            base = {"module": "c18_%s_%s" % (key, gen), "source": src, "decl_text": "class K(Packet):\n    " + body}
            obs.append(dict(base, id="C18/%s/%s/build" % (key, gen), fn="build_all", required_tags=["built"], symbolic=False,
                            bound="%d patterns: every subset of %d fields as Any x %d literal value sets (concrete)" % (len(patterns), len(fields), nlit),
                            assertion="as_regular_expression() does not raise"))
            if gen == "generated" and tier == "quick":
                continue    # matching does not depend on the code path beyond unpack, which C03 compares; keep quick small
            chunk = 8
            for b in range(0, len(patterns), chunk):
                fns = ["m%d_T%d" % (ix, T) for ix in range(b, min(len(patterns), b + chunk)) for T in lengths]
                obs.append(dict(base, id="C18/%s/%s/match-%02d" % (key, gen, b // chunk), fn=fns, required_tags=["matched"],
                                timeout=240 if tier == "quick" else 900,
                                bound="patterns %d..%d; candidate raw symbolic, every length in %s" % (b, b + chunk - 1, lengths),
                                assertion="pattern == unpack(raw)  =>  regexp matches raw"))
            ncorp = min(len(patterns), 4 if tier == "quick" else 12)
            obs.append(dict(base, id="C18/%s/%s/corpus" % (key, gen), fn=["c%d" % i for i in range(ncorp)], required_tags=["same"],
                            timeout=240 if tier == "quick" else 1200,
                            bound="corpus of two symbolic strings (lengths lmax and lmax-1; 3 and 2 for delimiter declarations), first patterns",
                            assertion="filter(pattern, corpus, True) == filter(pattern, corpus, False)"))
    return {"obligations": obs,
            "bounds": {"declarations": sorted(DECLS), "literal_sets_per_subset": nlit, "stress_bytes": [hex(b) for b in STRESS_BYTES]},
            "outside": ["literal values outside the stress list", "byte strings ended by a regex delimiter that is not kept (excluded by the property)",
                        "non-flat declarations (Sequence/Optional/Ref pack_regexp is unsupported upstream)"],
            "assumptions": ["CrossHair's symbolic regex engine (crosshair.libimpl.relib) implements re.match faithfully for the generated patterns"]}
