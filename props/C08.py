"""C08 Repeated, optional and referenced fields follow their declared control semantics (differential vs reference)."""
from vlib.catalogue import select
from vlib.catobs import obligations


def build(tier, seed):
    entries = [e for e in select(tier, "seq", "opt", "ref", "refsel") if "P" not in e["tags"]]
    obs = obligations("C08", entries, tier, 'H.h_equiv(SPEC, CLS, raw, off, KEY, "C08")',
                      assertion="accepted <=> reference accepts; list length == max(count,0); until: >=1 element, stops right "
                                "after the first element for which the condition holds; false when => [] and nothing consumed; "
                                "optional parsed iff condition else None; Ref value == nested parse at that position; same end")
    return {"obligations": obs,
            "bounds": {"declarations": [e["key"] for e in entries]},
            "outside": ["element kinds / nesting outside the catalogue"], "assumptions": []}
