"""C15 A class behaves per its current declaration whatever the code cache holds.
C16 (same module, see props/C16.py) The code cache survives crashes and concurrent definitions.

The real metaclass + CodeGenerator.generate_code run inside the harness with bisturi.codegen's `os`, `open` and
`SourceFileLoader` rebound to step-counting wrappers around the REAL functions (vlib/cachefs.py): real files in the
obligation's scratch directory, the real SourceFileLoader and byte-code cache.  Histories / crash points / schedules are
solver variables of the harness; the engine enumerates their feasible values (each path is then concrete - stated in
the evidence), except the cookie obligation, where the cached cookie is a genuinely symbolic string.
"""

SRC = '''\
import os, sys, shutil, types
from bisturi.packet import Packet, PacketError
from bisturi.field import Int, Data, Bits
import bisturi.codegen
from vlib.hx import assume
from vlib import cachefs

HERE = os.path.dirname(os.path.abspath(__file__))
PKTS = os.path.join(HERE, "__pkts__")
MODNAME = os.path.splitext(os.path.basename(__file__))[0] + "_Double"
CACHE = os.path.join(PKTS, MODNAME + ".py")
NVAR = 7
PROBES = [b"\\x80\\x01\\x00\\x02\\x03\\x04", b"\\x02\\xff\\xfe\\x00\\x00\\x00", b"\\x00\\x00\\x00\\x00\\x00\\x00", b"\\x01A\\x7f\\x80\\x81\\x82"]


def define(variant, generic=False):
    """a class statement for one of NVAR declarations of a class that is always called Double"""
    off = {"generate_for_pack": False, "generate_for_unpack": False}
    if variant == 0:
        class Double(Packet):
            __bisturi__ = dict(off) if generic else {"annotate": False}
            a = Int(2)
            b = Int(2)
    elif variant == 1:
        class Double(Packet):
            __bisturi__ = dict(off) if generic else {"annotate": False}
            a = Int(2, signed=True)
            b = Int(2)
    elif variant == 2:
        class Double(Packet):
            __bisturi__ = dict(off) if generic else {}
            a = Int(1)
            b = Data(a)
    elif variant == 3:
        class Double(Packet):
            __bisturi__ = dict(off) if generic else {"annotate": False, "generate_for_pack": False}
            a = Int(2)
            b = Int(2)
    elif variant == 4:
        class Double(Packet):
            __bisturi__ = dict(off)
            a = Int(2, endianness="little")
            b = Int(2)
    elif variant == 5:
        class Double(Packet):
            __bisturi__ = dict(off) if generic else {"annotate": False, "vectorize": False}
            a = Int(2, endianness="little")
            b = Int(2)
    else:
        class Double(Packet):
            __bisturi__ = dict(off) if generic else {"annotate": False, "generate_for_unpack": False}
            a = Int(2, signed=True)
            b = Int(2, endianness="little")
    return Double


def behaviour(cls):
    out = []
    for raw in PROBES:
        try:
            p = cls.unpack(raw)
        except PacketError:
            out.append(("rejected",))
            continue
        except Exception as e:
            out.append(("unpack-raises", type(e).__name__))
            continue
        try:
            out.append(("ok", (p.a, p.b), p.pack()))
        except Exception as e:
            out.append(("pack-raises", type(e).__name__))
    try:
        out.append(("default", cls().pack()))
    except Exception as e:
        out.append(("default-pack-raises", type(e).__name__))
    return out


REFERENCE = [behaviour(define(v, generic=True)) for v in range(NVAR)]


def clean():
    shutil.rmtree(PKTS, ignore_errors=True)
    cachefs.fresh_process([MODNAME])


def pick(v, n):
    """case split: a concrete index on every path"""
    assume(0 <= v < n)
    for c in range(n):
        if v == c:
            return c
    assume(False)


def installed_from_cache(cls):
    return (cls.pack_impl is not Packet.pack_impl) or (cls.unpack_impl is not Packet.unpack_impl)


def check_definition(variant, env_kwargs=None):
    """define variant under the wrappers; returns (class or None, failure text or None)"""
    env = cachefs.Env(**(env_kwargs or {}))
    with env:
        try:
            cls = define(variant)
        except cachefs.Crash:
            raise
        except Exception as e:
            return None, "definition-raises-%s" % type(e).__name__, env
    got = behaviour(cls)
    if got != REFERENCE[variant]:
        return cls, "behaves-like-another-declaration", env
    return cls, None, env


def history(v1: int, v2: int, v3: int, fresh2: bool, fresh3: bool, bytecode: bool, same_mtime: bool) -> str:
    """three successive definitions of same-named classes sharing one cache file"""
    v1, v2, v3 = pick(v1, NVAR), pick(v2, NVAR), pick(v3, NVAR)
    clean()
    old_flag = sys.dont_write_bytecode
    sys.dont_write_bytecode = not bytecode
    try:
        for i, (v, fresh) in enumerate(((v1, True), (v2, fresh2), (v3, fresh3))):
            if fresh:
                cachefs.fresh_process([MODNAME])
            cls, fail, env = check_definition(v)
            if fail:
                return "FAIL sig=C15|%s|history=%r fresh=%r bytecode=%r same_mtime=%r step=%d" % (
                    fail, (v1, v2, v3), (fresh2, fresh3), bytecode, same_mtime, i)
            if same_mtime and os.path.exists(CACHE):
                os.utime(CACHE, (1000000000, 1000000000))
    finally:
        sys.dont_write_bytecode = old_flag
        clean()
    return "ok:history"


def _texts():
    out = []
    atomic = False
    tmp = None
    for v in range(NVAR):
        clean()
        cls, fail, env = check_definition(v)
        atomic = atomic or ("replace" in env.trace) or ("rename" in env.trace)
        for wp in env.write_paths:
            if wp != CACHE:
                # the temporary file ANOTHER process running the same code would use: same name with its own pid
                tmp = wp.replace(str(os.getpid()), "99999")
        out.append(open(CACHE).read() if os.path.exists(CACHE) else None)
    clean()
    return out, atomic, tmp


TEXT, ATOMIC, OTHER_TMP = _texts()      # ATOMIC: the code under test moves a finished file into place (os.replace) instead of writing in place


def seeded(j: int, jp: int, v: int, bytecode: bool) -> str:
    """the cache directory was left by earlier processes: the source generated for declaration j and - with byte-code - a
    byte-code file compiled from the source of declaration jp, recorded with the same mtime (Python trusts it when the
    sizes are equal too); then declaration v is defined in a fresh process"""
    j, jp, v = pick(j, NVAR + 1), pick(jp, NVAR), pick(v, NVAR)
    clean()
    old_flag = sys.dont_write_bytecode
    try:
        src_text = TEXT[j] if j < NVAR else None
        if src_text is not None:
            with cachefs.untraced():
                os.makedirs(PKTS, exist_ok=True)
                if bytecode and TEXT[jp] is not None:
                    sys.dont_write_bytecode = False
                    with open(CACHE, "w") as f:
                        f.write(TEXT[jp])
                    os.utime(CACHE, (1000000000, 1000000000))
                    from importlib.machinery import SourceFileLoader
                    SourceFileLoader(MODNAME, CACHE).load_module()
                    cachefs.fresh_process([MODNAME])
                with open(CACHE, "w") as f:
                    f.write(src_text)
                os.utime(CACHE, (1000000000, 1000000000))
        sys.dont_write_bytecode = not bytecode
        cls, fail, env = check_definition(v)
        if fail:
            return "FAIL sig=C15|%s|source-of=%d bytecode-of=%d defined=%d bytecode=%r" % (fail, j, jp, v, bytecode)
        stale = (bytecode and src_text is not None and TEXT[jp] is not None and jp != j and len(TEXT[jp]) == len(src_text))
    finally:
        sys.dont_write_bytecode = old_flag
        clean()
    return "ok:seeded-with-trusted-stale-bytecode" if stale else "ok:seeded"


class _Sentinel:
    pass


def cookie(s: str) -> str:
    """the cached module carries an ARBITRARY cookie string s and foreign functions: they are installed only if s is the
    cookie computed for the current declaration (SHA-1 collision-freeness assumed)"""
    assume(len(s) == 40)
    clean()
    cls, fail, env = check_definition(0)
    want = [l for l in open(CACHE).read().splitlines() if l.startswith("BISTURI_PACKET_COOKIE")][0].split("'")[1]
    foreign_pack = lambda pkt, fragments, **k: fragments
    foreign_unpack = lambda pkt, raw, offset, **k: offset
    fake = types.ModuleType(MODNAME)
    fake.BISTURI_PACKET_COOKIE = s
    fake.pack_impl = foreign_pack
    fake.unpack_impl = foreign_unpack
    fake.__cached__ = os.path.join(PKTS, "__pycache__", "none.pyc")
    cachefs.fresh_process([MODNAME])
    env = cachefs.Env()
    state = {"first": True}
    real_loader = cachefs._Loader

    class FakeFirst(real_loader):
        def load_module(self):
            if state["first"]:
                state["first"] = False
                self._env.tick("load")
                return fake
            return real_loader.load_module(self)

        def exec_module(self, module):
            if state["first"]:
                state["first"] = False
                self._env.tick("load")
                module.BISTURI_PACKET_COOKIE = s
                module.pack_impl = foreign_pack
                module.unpack_impl = foreign_unpack
                return None
            return real_loader.exec_module(self, module)
    with env:
        bisturi.codegen.SourceFileLoader = lambda name, path: FakeFirst(env, name, path)
        cls = define(0)
    clean()
    used_foreign = (cls.__dict__.get("pack_impl") is foreign_pack) or (cls.__dict__.get("unpack_impl") is foreign_unpack)
    if used_foreign and s != want:
        return "FAIL sig=C15|foreign-code-installed-with-different-cookie"
    if not used_foreign and s == want:
        return "ok:regenerated-although-equal"
    return "ok:cookie-equal" if used_foreign else "ok:cookie-differs"


# ------------------------------------------------------------------------------------------ C16
def _kind(fail):
    if fail is None:
        return None
    for k in ("SyntaxError", "IndentationError", "TabError"):
        if fail.endswith(k):
            return "definition-raises-SyntaxError"
    return fail


CANDS = %(cands)r


def crash(v1: int, v2: int, k: int, ci: int) -> str:
    \"\"\"the process defining declaration v1 dies right after file-system step k (a dying write leaves only its first
    CANDS[ci] bytes); then a fresh process defines declaration v2 on what is on disk\"\"\"
    v1, v2 = pick(v1, %(nv)d), pick(v2, %(nv)d)
    k = pick(k, 18)
    ci = pick(ci, len(CANDS))
    clean()
    died = False
    env = cachefs.Env(crash_after=k, torn=CANDS[ci])
    try:
        with env:
            try:
                define(v1)
            except cachefs.Crash:
                raise
            except Exception as e:
                clean()
                return "FAIL sig=C16|first-definition|%%s" %% _kind("definition-raises-%%s" %% type(e).__name__)
    except cachefs.Crash:
        died = True
        if ci != 0 and env.trace[-1] != "write":
            assume(False)      # the torn length only matters when the dying step is a write: keep one representative
    if not died:
        clean()
        if ci != 0:
            assume(False)      # no crash happened: the torn length is irrelevant, keep one representative
        return "ok:no-crash"
    cachefs.fresh_process([MODNAME])
    cls, fail, env = check_definition(v2)
    clean()
    if fail:
        return "FAIL sig=C16|after-crash|%%s" %% _kind(fail)
    return "ok:survived"


def race(v1: int, v2: int, i1: int, a: int, i2: int, b: int) -> str:
    \"\"\"the process under test defines declaration v1 while another process rewrites the same cache file for declaration
    v2: `a` of the other's steps (remove byte-code, truncate, 4 writes, close) happen before our operation i1, `b` before i2,
    the rest after we finished\"\"\"
    v1, v2 = pick(v1, %(nv)d), pick(v2, %(nv)d)
    i1 = pick(i1, 16)
    a = pick(a, 9)
    if %(twocuts)r:
        i2 = i1 + pick(i2, 16 - i1)
        b = a + pick(b, 9 - a)
    else:
        assume(i2 == 0 and b == 0)
        i2, b = i1, a
    assume(TEXT[v2] is not None)
    clean()
    if %(preexisting)r:
        # the cache already holds the other declaration (both processes find a stale file)
        cachefs.fresh_process([MODNAME])
        define(v2)
        cachefs.fresh_process([MODNAME])
    t = TEXT[v2]
    cut = [0, len(t) // 4, len(t) // 2, 3 * len(t) // 4, len(t)]
    parts = [t[cut[n]:cut[n + 1]] for n in range(4)]
    inter = cachefs.interferer_steps(CACHE, parts, os.path.join(PKTS, "__pycache__", MODNAME + ".cpython-311.pyc"), ATOMIC, OTHER_TMP)
    progress = [0] * 16
    for n in range(16):
        progress[n] = a if n >= i1 else 0
        if n >= i2:
            progress[n] = b
    try:
        cls, fail, env = check_definition(v1, {"interferer": inter, "progress": progress})
    finally:
        pass
    env.finish_interferer()
    clean()
    if fail:
        return "FAIL sig=C16|race|%%s" %% _kind(fail)
    if env.interferer_error is not None:
        return "FAIL sig=C16|race|other-process-fails-with-%%s" %% type(env.interferer_error).__name__
    return "ok:survived"
'''


def source(cands=(0,), nv=7, preexisting=False, twocuts=False):
    return SRC.replace("%(cands)r", repr(list(cands))).replace("%(nv)d", str(nv)).replace("%(preexisting)r", repr(preexisting)) \
        .replace("%(twocuts)r", repr(twocuts)) \
        .replace("%%", "%")


def build(tier, seed):
    SRC = source()
    obs = []
    obs.append({"id": "C15/cookie", "module": "c15_cookie", "source": SRC, "fn": "cookie",
                "required_tags": ["cookie-equal", "cookie-differs"],
                "bound": "cached cookie = arbitrary symbolic string of 40 characters", "timeout": 120,
                "assertion": "cached functions are installed  =>  cached cookie == cookie computed for the current declaration",
                "decl_text": "CodeGenerator.generate_code cookie comparison"})
    nfirst = 4 if tier == "quick" else 7
    for first in range(nfirst):
      obs.append({"id": "C15/history/first%d" % first, "module": "c15_history%d" % first,
                "source": SRC.replace("v1, v2, v3 = pick(v1, NVAR), pick(v2, NVAR), pick(v3, NVAR)",
                                      "assume(v1 == %d)\n    v1, v2, v3 = %d, pick(v2, NVAR), pick(v3, %d)" % (first, first, nfirst)),
                "fn": "history", "required_tags": ["history"],
                "timeout": 900 if tier == "quick" else 3000, "per_path_timeout": 120.0,
                "bound": "all histories of 3 definitions over 7 same-named declarations (same-size sources, changed options, generation "
                         "off/on), each later one in the same or a fresh process, byte-code on/off, cache mtime frozen or not: "
                         "7^3 x 2 x 2 x 2 x 2 cases, indices are solver variables (each path concrete)",
                "assertion": "every definition succeeds and the class behaves like the same declaration compiled with generators off "
                             "(4 probe inputs + default packet)", "decl_text": "7 variants of class Double"})
    obs.append({"id": "C15/seeded", "module": "c15_seeded", "source": SRC, "fn": "seeded", "required_tags": ["seeded", "seeded-with-trusted-stale-bytecode"],
                "timeout": 600, "per_path_timeout": 120.0,
                "bound": "cache = source generated for declaration j (7, or absent) + byte-code compiled from declaration jp's source "
                         "(7) with the same mtime (trusted by Python when sizes are equal: variants 0/1/3 have equal size), or no "
                         "byte-code; then declaration v (7) defined in a fresh process: 8 x 7 x 7 x 2 cases",
                "assertion": "as above", "decl_text": "7 variants of class Double"})
    return {"obligations": obs,
            "bounds": {"declarations": 7, "history_length": 3},
            "outside": ["more than 3 definitions", "SHA-1 collisions", "file-system semantics other than the local one used by the run"],
            "assumptions": ["SHA-1 is collision free on the generated texts",
                            "the run's own file system and CPython's import system stand for 'the' environment (observed, not modelled)"]}
