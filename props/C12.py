"""C12 Every failure is a PacketError that locates the failing field."""
from vlib import spec as S
from vlib.catalogue import CAT, select
from vlib.catobs import obligations

PACK = '''
def pk_%(fname)s(v: int) -> str:
    return H.h_pack_errors(SPEC, CLS, KEY, %(gen)r, %(fname)r, v)


def pk_types_%(fname)s() -> str:
    for bad in (None, 1.5, 'x', b'x', [1]):
        r = H.h_pack_errors(SPEC, CLS, KEY, %(gen)r, %(fname)r, bad)
        if r == "ok:packed":
            return "FAIL sig=C12|wrong-type-accepted|%%s|%%r" %% (KEY, bad)
        if not r.startswith("ok:"):
            return r
    return "ok:rejected-located"
'''

MISC = '''
def non_bytes() -> str:
    for bad in ('abc', bytearray(b'abc'), memoryview(b'abc'), None, 7, [1, 2]):
        try:
            CLS.unpack(bad)
        except ValueError:
            continue
        except Exception as e:
            return "FAIL sig=C12|non-bytes-input-raises-%s" % type(e).__name__
        return "FAIL sig=C12|non-bytes-input-accepted|%r" % (bad,)
    return "ok:valueerror"


class NInner(Packet):
    x = Int(1)
    y = Int(2)


class NOuter(Packet):
    h = Int(1)
    inner = Ref(NInner)
    items = Ref(NInner).repeated(2)
    z = Int(1)


def nested_pack(v: int, which: int) -> str:
    """a failing value two levels down on pack: innermost entry names the nested field at its output position, followed by
    one entry per enclosing reference / sequence field"""
    assume(0 <= which <= 2)
    p = NOuter(items=[NInner(), NInner()])
    target = [p.inner, p.items[0], p.items[1]][which]
    target.y = v
    want_pos = [2, 5, 8][which]
    want_parent = ["inner", "items", "items"][which]
    try:
        p.pack()
    except PacketError as e:
        if 0 <= v <= 65535:
            return "FAIL sig=C12|representable-value-rejected|nested"
        if e.was_error_found_in_unpacking_phase is not False or getattr(e, "packet", None) is not p:
            return "FAIL sig=C12|wrong-phase-flag|nested"
        st = e.fields_stack
        if len(st) != 2:
            return "FAIL sig=C12|stack-depth|nested got=%r" % (st,)
        if tuple(st[0]) not in ((want_pos, "y", "NInner"), (want_pos - 1, "between 'x' and 'y'", "NInner")):
            return "FAIL sig=C12|innermost-entry-does-not-locate-failing-field|nested got=%r want=%r" % (st[0], (want_pos, "y", "NInner"))
        if st[1][1] != want_parent or st[1][2] != "NOuter":
            return "FAIL sig=C12|enclosing-entry|nested got=%r" % (st[1],)
        str(e)
        return "ok:rejected-located"
    except Exception as e:
        return "FAIL sig=C12|pack-failure-not-PacketError|nested|%s" % type(e).__name__
    if not (0 <= v <= 65535):
        return "FAIL sig=C12|out-of-range-packed|nested"
    return "ok:packed"


def collide(o: int) -> str:
    """colliding positions on pack: file_data placed on top of payload"""
    assume(0 <= o <= 7)
    p = CLS(offset_of_file=o, payload=b'abc', file_data=b'XY')
    try:
        out = p.pack()
    except PacketError as e:
        if e.was_error_found_in_unpacking_phase is not False:
            return "FAIL sig=C12|wrong-phase-flag|collide"
        if tuple(e.fields_stack[0]) != (o, 'file_data', 'FolderOverlap') or len(e.fields_stack) != 1:
            return "FAIL sig=C12|innermost-entry-does-not-locate-failing-field|collide got=%r" % (e.fields_stack,)
        str(e)
        if not (o < 4):
            return "FAIL sig=C12|collision-reported-without-overlap|o=%r" % o
        return "ok:rejected-located"
    except Exception as e:
        return "FAIL sig=C12|pack-failure-not-PacketError|collide|%s" % type(e).__name__
    if o < 4:
        return "FAIL sig=C12|collision-not-reported|o=%r out=%r" % (o, out)
    return "ok:packed"
'''


AUTO = '''
from bisturi.packet import Packet, PacketError
from bisturi.field import Int, Data
from bisturi.descriptor import Auto, AutoLength
from vlib.hx import assume


class AL(Packet):
    __bisturi__ = {%(opts)s}
    n = Int(1).describe(AutoLength('d'))
    d = Data(n)


class AF(Packet):
    __bisturi__ = {%(opts)s}
    x = Int(1)
    c = Int(1).describe(Auto(lambda pkt: 255 // pkt.x))


def sync_fail(x: int) -> str:
    """a failing computed value (descriptor sync before pack) must surface as PacketError like any other pack failure"""
    assume(0 <= x <= 255)
    p = AF(x=x)
    try:
        out = p.pack()
    except PacketError as e:
        if e.was_error_found_in_unpacking_phase is not False:
            return "FAIL sig=C12|wrong-phase-flag|auto"
        str(e)
        return "ok:rejected-located" if x == 0 else "FAIL sig=C12|auto-sync-rejected-valid|x=%%r" %% x
    except Exception as e:
        return "FAIL sig=C12|descriptor-sync-failure-escapes-as-%%s" %% type(e).__name__
    if x == 0:
        return "FAIL sig=C12|auto-division-by-zero-packed"
    return "ok:packed"


def sync_fail_len() -> str:
    p = AL()
    p.d = None
    try:
        p.pack()
    except PacketError as e:
        return "ok:rejected-located"
    except Exception as e:
        return "FAIL sig=C12|descriptor-sync-failure-escapes-as-%%s" %% type(e).__name__
    return "FAIL sig=C12|none-packed"
'''


def build(tier, seed):
    entries = [e for e in select(tier) if "P" not in e["tags"]]
    if tier == "quick":
        entries = [e for e in entries if not ("marker" in e["tags"] and "sbl" in e["tags"])]
        entries = [e for e in entries if e["tags"] & {"tail", "run", "ref", "refsel", "seq", "opt", "move", "G", "nest", "size", "bits"}]
        entries = [e for e in entries if not e["key"].startswith("g_bridge")]
    obs = []
    a = "both reject => PacketError, unpacking phase, e.packet set, innermost entry = failing field (or the generated run containing " \
        "it) with the offset where it begins, one entry per enclosing Ref/Sequence field with the offset where it began, str(e) works; " \
        "silent=True <=> None"
    for gen in ("generic", "generated"):
        obs += obligations("C12", entries, tier, "H.h_errors(SPEC, CLS, raw, off, KEY, %r)" % (gen == "generated"),
                           gens=(gen,), required=("rejected-located",), assertion=a)
    # pack side
    for key in ("g_run_mixed", "s_int_run", "s_tail_int3ud", "g_moves", "g_cls_little", "s_bits_two_runs"):
        e = CAT[key]
        for gen in ("generic", "generated"):
            extra = ""
            fns = []
            for fname, f in e["decl"].fields:
                if isinstance(f, S.Int):
                    extra += PACK % dict(fname=fname, gen=(gen == "generated"))
                    fns += ["pk_" + fname, "pk_types_" + fname]
            base = obligations("C12", [e], tier, "'ok:unused'", gens=(gen,), lengths=[0], extra_src=extra.replace("KEY", repr(key)))[0]
            base.update({"id": "C12/pack/%s/%s" % (key, gen), "fn": fns, "required_tags": ["rejected-located", "packed"],
                         "bound": "default packet, one integer field set to an unbounded symbolic int / to each of a finite list of "
                                  "non-integers", "assertion": "failure => PacketError, packing phase, e.packet, stack == [(output "
                                  "position where the field (or its generated run) begins, name, class)], str(e) works"})
            obs.append(base)
    for gen in ("generic", "generated"):
        base = obligations("C12", [CAT["d_folder_overlap"]], tier, "'ok:unused'", gens=(gen,), lengths=[0], extra_src=MISC)[0]
        base.update({"id": "C12/misc/%s" % gen, "fn": ["non_bytes", "collide", "nested_pack"], "required_tags": ["valueerror", "rejected-located", "packed"],
                     "bound": "finite list of non-bytes inputs (concrete); colliding at-position symbolic in [0,7]; unbounded value in a field two "
                              "levels down (direct Ref, first and second element of a sequence of packets)",
                     "assertion": "non-bytes raw => ValueError; overlapping placement => PacketError naming the second field at its position"})
        obs.append(base)
    for gen, opts in (("generic", "'generate_for_pack': False, 'generate_for_unpack': False"), ("generated", "")):
        obs.append({"id": "C12/auto-sync/%s" % gen, "module": "c12_auto_%s" % gen, "source": AUTO % dict(opts=opts),
                    "fn": ["sync_fail", "sync_fail_len"], "required_tags": [], "collect_all": True,
                    "bound": "Auto(lambda pkt: 255 // pkt.x) with x symbolic in [0,255]; AutoLength over a field set to None",
                    "assertion": "a failing descriptor computation during pack() is reported as PacketError (packing phase)",
                    "decl_text": "AF: x=Int(1); c=Int(1).describe(Auto(lambda pkt: 255 // pkt.x))"})
    return {"obligations": obs, "bounds": {"declarations": [e["key"] for e in entries]},
            "outside": ["failures raised by descriptor sync functions are covered by the Auto obligations below"], "assumptions": []}
