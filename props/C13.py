"""C13 Packets are independent and pack/unpack are observationally pure.

Frame obligations: a bystander packet (parsed from symbolic bytes or default-constructed) is observed (field values and
pack()) before and after every history of <= N operations on OTHER packets of the same / related classes (shared
sub-packet class, prototype instance, default list); inputs and assigned values symbolic.  Aliasing: no mutable sub-object
is shared.  Purity: repeated pack() gives the same bytes and leaves fields unchanged.
Shared-write monitor: while unpack/pack run symbolically, every attribute write to a field object that existed when the
class was compiled is recorded; no path may change such an attribute.  If no shared write exists, operations on distinct
packets share no mutable state and commute under any interleaving - the (sufficient) basis of the thread claim; thread
schedules themselves are NOT explored (outside this technique).
"""
import itertools

SRC = '''\
import re
from bisturi.packet import Packet, PacketError
from bisturi.field import Int, Data, Bits, Ref, Field
from vlib.hx import assume, fix

OPTS = {%(opts)s}


class Sub(Packet):
    __bisturi__ = dict(OPTS)
    x = Int(1)
    y = Int(1)


class A(Packet):
    __bisturi__ = dict(OPTS)
    h = Bits(2)
    n = Bits(2)
    p = Bits(4)
    r = Ref(Sub)
    s = Int(1).repeated(n)
    d = Data(until_marker=b'\\x00')
    o = Int(1).when(h == 1)


class B(Packet):
    __bisturi__ = dict(OPTS)
    r = Ref(Sub(x=1, y=2))
    lst = Int(1).repeated(2, default=[7, 8])
    k = Bits(3)
    j = Bits(5)


class RX(Packet):
    __bisturi__ = dict(OPTS)
    a = Int(1)
    d = Data(until_marker=re.compile(b'X+'))
    z = Int(1)


class CR(Packet):
    __bisturi__ = dict(OPTS)
    t = Bits(1)
    q = Bits(7)
    r = Ref(lambda pkt, **k: Int(2) if pkt.t else Sub(), default=0)
    z = Int(1)


def _local_classes():
    """classes defined inside a function cannot be pickled: their prototypes are cloned by deep copy (another code path)"""
    class LSub(Packet):
        __bisturi__ = dict(OPTS)
        n = Int(1)
        objs = Int(1).repeated(n)

    class LInner(Packet):
        __bisturi__ = dict(OPTS)
        bag = Ref(LSub)
        w = Int(1)

    class LOuter(Packet):
        __bisturi__ = dict(OPTS)
        box = Ref(LInner)
        t = Int(1)
    return LSub, LInner, LOuter


LSub, LInner, LOuter = _local_classes()


def local_prototypes(v: int, w: int, raw: bytes) -> str:
    """prototype clones of unpicklable (function-local) classes: in-place changes of one packet's nested list / nested
    packet never show in another packet built before or after"""
    raw = fix(raw, 4)
    one, two = LOuter(), LOuter()
    before = (two.box.w, two.box.bag.n, list(two.box.bag.objs), two.t, two.pack())
    one.box.bag.objs.append(v)
    one.box.bag.n = 1
    one.box.w = w
    parsed = LOuter.unpack(raw, silent=True)
    if parsed is not None:
        parsed.box.bag.objs.append(v)
        parsed.box.w = w
    after = (two.box.w, two.box.bag.n, list(two.box.bag.objs), two.t, two.pack())
    if before != after:
        return "FAIL sig=C13|prototype-clone-shares-mutable-sub-object|bystander-changed before=%%r after=%%r" %% (before, after)
    three = LOuter()
    fresh = (three.box.w, three.box.bag.n, list(three.box.bag.objs), three.t, three.pack())
    if fresh != before:
        return "FAIL sig=C13|prototype-clone-shares-mutable-sub-object|later-packet-polluted %%r" %% (fresh,)
    if one.box is two.box or one.box.bag is two.box.bag or one.box.bag.objs is two.box.bag.objs:
        return "FAIL sig=C13|mutable-sub-object-shared|LOuter.box"
    return "ok:unchanged"


def obs_sub(v):
    return None if v is None else (v.x, v.y)


def observe(q):
    if isinstance(q, A):
        fields = (q.h, q.n, q.p, obs_sub(q.r), list(q.s), q.d, q.o)
    elif isinstance(q, B):
        fields = (obs_sub(q.r), list(q.lst), q.k, q.j)
    elif isinstance(q, CR):
        fields = (q.t, q.q, obs_sub(q.r) if isinstance(q.r, Packet) else q.r, q.z)
    else:
        fields = (q.a, q.d, q.z)
    try:
        out = q.pack()
    except PacketError:
        out = "raises"
    return (fields, out)


# ---------------------------------------------------------------------------- shared-write monitor
WRITES = []
ARMED = [False]
KNOWN_FIELDS = set()


def _collect(f, seen):
    if id(f) in seen:
        return
    seen.add(id(f))
    for name in ("prototype_field", "I"):
        sub = getattr(f, name, None)
        if isinstance(sub, Field):
            _collect(sub, seen)


def _arm():
    for cls in (Sub, A, B, RX, CR):
        for _, f, _, _ in cls.get_fields():
            _collect(f, KNOWN_FIELDS)

    def monitor(self, name, value):
        if ARMED[0] and id(self) in KNOWN_FIELDS:
            missing = object()
            old = self.__dict__.get(name, missing)
            changed = (old is missing) or not (old is value or old == value)
            if changed:
                WRITES.append((type(self).__name__, getattr(self, "field_name", "?"), name))
        object.__setattr__(self, name, value)
    Field.__setattr__ = monitor


_arm()


def reset_shared_state():
    """the engine replays the harness once per path: start every path from the state the class has after definition
    (before fix 1bfe930 unpack changed the delimiter remembered by regex-delimited Data; a change that reintroduces such
    shared state must not make the exploration non-deterministic)"""
    for _, f, _, _ in RX.get_fields():
        if isinstance(f, Data):
            object.__setattr__(f, "delimiter_to_be_included", b"")


def monitor_unpack_pack(ra: bytes, rb: bytes, rx: bytes) -> str:
    """no path of unpack / pack changes an attribute of a field object shared by all instances of the class"""
    reset_shared_state()
    ra = fix(ra, %(la)d)
    rb = fix(rb, 5)
    rx = fix(rx, 4)
    del WRITES[:]
    ARMED[0] = True
    try:
        for cls, raw in ((A, ra), (B, rb), (RX, rx), (CR, rx)):
            p = cls.unpack(raw, silent=True)
            if p is not None:
                try:
                    p.pack()
                except PacketError:
                    pass
            q = cls()
            try:
                q.pack()
            except PacketError:
                pass
    finally:
        ARMED[0] = False
    if WRITES:
        w = WRITES[0]
        return "FAIL sig=C13|shared-field-object-written|%%s.%%s" %% (w[0], w[2])
    return "ok:no-shared-writes"


# ---------------------------------------------------------------------------- frame / histories
OPS = %(ops)r


def _do(op, cls, raw, v, b, other):
    """one operation on a packet that is NOT the bystander; returns the (possibly new) other packet"""
    if op == "construct":
        return cls()
    if op == "unpack":
        got = cls.unpack(raw, silent=True)
        return got if got is not None else other
    if other is None:
        other = cls()
    if op == "setint":
        if isinstance(other, A):
            other.h = v
            other.r.x = v
        elif isinstance(other, B):
            other.k = v
            other.r.y = v
        elif isinstance(other, CR):
            other.q = v
            if isinstance(other.r, Packet):
                other.r.x = v
            else:
                other.r = v
        else:
            other.a = v
    elif op == "setdata":
        if isinstance(other, A):
            other.d = b
        elif isinstance(other, RX):
            other.d = b
    elif op == "append":
        if isinstance(other, A):
            other.s.append(v)
        elif isinstance(other, B):
            other.lst.append(v)
    elif op == "pack":
        try:
            other.pack()
        except PacketError:
            pass
    return other


def _mk(ix):
    bcls_name, ocls_name, parsed, hist = OPS[ix]
    bcls = {"A": A, "B": B, "RX": RX, "CR": CR}[bcls_name]
    ocls = {"A": A, "B": B, "RX": RX, "CR": CR}[ocls_name]
    lb = {"A": %(la)d, "B": 5, "RX": 4, "CR": 4}[bcls_name]
    lo = {"A": %(la)d, "B": 5, "RX": 4, "CR": 4}[ocls_name]

    def h(rq: bytes, rp: bytes, v: int, b: bytes) -> str:
        reset_shared_state()
        rq = fix(rq, lb)
        rp = fix(rp, lo)
        assume(len(b) <= 2)
        if parsed:
            q = bcls.unpack(rq, silent=True)
            if q is None:
                return "ok:rejected"
        else:
            q = bcls()
        before = observe(q)
        other = None
        for op in hist:
            other = _do(op, ocls, rp, v, b, other)
        after = observe(q)
        if before != after:
            kind = "pack-output" if before[0] == after[0] else "field-values"
            if kind == "pack-output" and bcls is RX and ocls is RX and "unpack" in hist:
                # the delimiter matched by the LAST parse of any RX packet re-emitted by another one (was finding F2, fixed 1bfe930)
                return "FAIL sig=C13|regex-delimiter-remembered-on-shared-field|RX"
            return "FAIL sig=C13|bystander-%%s-changed|bystander=%%s(%%s)|other=%%s|history=%%s before=%%r after=%%r" %% (
                kind, bcls_name, "parsed" if parsed else "default", ocls_name, "-".join(hist), before, after)
        # aliasing of mutable sub-objects
        if other is not None and type(other) is type(q):
            for name in ("r", "s", "lst"):
                if hasattr(q, name) and isinstance(getattr(q, name), (list, Packet)) and getattr(q, name) is getattr(other, name, None):
                    return "FAIL sig=C13|mutable-sub-object-shared|%%s.%%s" %% (bcls_name, name)
        return "ok:unchanged"
    return h


HARNESSES = dict(("f%%d" %% i, _mk(i)) for i in range(len(OPS)))


# ---------------------------------------------------------------------------- re-parse after failed parses
def _expr_class():
    """a class whose deferred expressions can FAIL half way (division by a field that is zero): built afresh for every path
    so that anything a failed evaluation leaves behind in the class cannot leak from one explored path into the next"""
    class E(Packet):
        __bisturi__ = dict(OPTS)
        t = Bits(2)
        w = Bits(2)
        k = Bits(4)
        c = Int(1).repeated(t // w)
        z = Int(1)
    return E


def _obs_e(q):
    if q is None:
        return None
    try:
        out = q.pack()
    except PacketError:
        out = "raises"
    return (q.t, q.w, q.k, list(q.c), q.z, out)


def reparse(rq: bytes, r1: bytes, r2: bytes) -> str:
    """parsing the same bytes gives the same packet before and after other inputs - including inputs whose parse FAILS
    inside a deferred expression - were parsed by the same class; the packet parsed first is not changed either"""
    from vlib.cachefs import untraced
    with untraced():
        E = _expr_class()
    rq = fix(rq, 4)
    r1 = fix(r1, 2)
    r2 = fix(r2, 2)
    q1 = E.unpack(rq, silent=True)
    first = _obs_e(q1)
    f1 = E.unpack(r1, silent=True)
    f2 = E.unpack(r2, silent=True)
    if _obs_e(q1) != first:
        return "FAIL sig=C13|bystander-field-values-changed|bystander=E(parsed)|other=E|history=unpack-unpack"
    q2 = E.unpack(rq, silent=True)
    again = _obs_e(q2)
    if first != again:
        return "FAIL sig=C13|same-bytes-parse-differently-after-other-parses|E failed=%%r first=%%r again=%%r" %% (
            (f1 is None, f2 is None), first, again)
    if f1 is None or f2 is None:
        return "ok:same-after-failed-parse"
    return "ok:same"


def purity(ra: bytes, rb: bytes, rx: bytes) -> str:
    """repeated pack() returns the same bytes and leaves every field unchanged; defaults are not shared"""
    reset_shared_state()
    ra = fix(ra, %(la)d)
    rb = fix(rb, 5)
    rx = fix(rx, 4)
    seen = False
    for cls, raw in ((A, ra), (B, rb), (RX, rx), (CR, rx)):
        for p in (cls.unpack(raw, silent=True), cls()):
            if p is None:
                continue
            seen = True
            o1 = observe(p)
            o2 = observe(p)
            o3 = observe(p)
            if not (o1 == o2 == o3):
                return "FAIL sig=C13|pack-not-pure|%%s %%r %%r" %% (cls.__name__, o1, o2)
    b1, b2 = B(), B()
    if b1.lst is b2.lst or b1.r is b2.r:
        return "FAIL sig=C13|default-object-shared-between-instances"
    a1, a2 = A(), A()
    if a1.s is a2.s or a1.r is a2.r:
        return "FAIL sig=C13|default-object-shared-between-instances"
    return "ok:pure" if seen else "ok:rejected"
'''


def build(tier, seed):
    n = 2 if tier == "quick" else 3
    kinds = ["construct", "unpack", "setint", "setdata", "append", "pack"]
    la = 6
    obs = []
    for gen, opts in (("generic", "'generate_for_pack': False, 'generate_for_unpack': False"), ("generated", "")):
        combos = []
        for bcls, ocls in (("A", "A"), ("B", "B"), ("A", "B"), ("B", "A"), ("RX", "RX"), ("A", "RX"), ("CR", "CR"), ("CR", "A")):
            for parsed in (True, False):
                for hist in itertools.product(kinds, repeat=n):
                    if "unpack" not in hist and "construct" not in hist and hist[0] not in ("setint", "setdata", "append"):
                        continue
                    combos.append((bcls, ocls, parsed, hist))
        # RX (regex delimited, not kept): only histories that parse another RX packet can matter, bystander parsed
        combos = [c for c in combos if c[0] != "RX" or (c[2] and "unpack" in c[3] and c[3].count("unpack") == 1)]
        if tier == "quick":
            combos = [c for i, c in enumerate(combos) if i % 3 == seed % 3 or (c[0] == "RX" and c[3][-1] == "unpack")]
        # group by class pair
        groups = {}
        for c in combos:
            groups.setdefault((c[0], c[1], c[2]), []).append(c)
        for (bcls, ocls, parsed), cs in sorted(groups.items()):
            for b in range(0, len(cs), 12):
                chunk = cs[b:b + 12]
                src = SRC % dict(opts=opts, ops=chunk, la=la)
                oid = "C13/frame/%s/%s-%s-%s/%02d" % (gen, bcls, ocls, "parsed" if parsed else "default", b // 12)
                obs.append({"id": oid, "module": "c13_" + oid.replace("/", "_").replace("-", "_").lower(), "source": src,
                            "fn": ["f%d" % i for i in range(len(chunk))], "required_tags": ["unchanged"], "collect_all": True,
                            "timeout": 240,
                            "bound": "bystander %s (%s from %d symbolic bytes), histories of %d operations on another %s packet: %s; inputs and "
                                     "assigned values symbolic" % (bcls, "parsed" if parsed else "default", {"A": la, "B": 5, "RX": 4, "CR": 4}[bcls], n, ocls,
                                                                   ["-".join(c[3]) for c in chunk][:4]),
                            "assertion": "field values and pack() of the bystander are unchanged; no mutable sub-object is shared",
                            "decl_text": "A(h,n,p Bits; r Ref(Sub); s Int(1).repeated(n); d Data(until NUL); o Int(1).when(h==1)); "
                                         "B(r Ref(Sub(x=1,y=2)); lst repeated(2, default=[7,8]); Bits); RX(a; d Data(until re X+); z); "
                                         "CR(t,q Bits; r Ref(lambda: Int(2) if t else Sub()); z)"})
        src = SRC % dict(opts=opts, ops=[], la=la)
        obs.append({"id": "C13/local-prototypes/%s" % gen, "module": "c13_local_%s" % gen, "source": src, "fn": "local_prototypes",
                    "required_tags": ["unchanged"], "timeout": 240,
                    "bound": "function-local (unpicklable) classes LOuter -> LInner -> LSub(list); two default packets, a parsed one from 4 "
                             "symbolic bytes; in-place changes with symbolic values",
                    "assertion": "the bystander and any packet constructed later are unchanged; no nested list / packet is shared",
                    "decl_text": "LSub(n; objs=Int(1).repeated(n)); LInner(bag=Ref(LSub); w); LOuter(box=Ref(LInner); t)"})
        obs.append({"id": "C13/reparse/%s" % gen, "module": "c13_reparse_%s" % gen, "source": src, "fn": "reparse",
                    "required_tags": ["same", "same-after-failed-parse"], "timeout": 240, "collect_all": True,
                    "bound": "class E (the count is a deferred expression dividing by a 2-bit field: evaluation fails when it "
                             "is 0), built afresh per path; first input 4 symbolic bytes, two further inputs of 2 symbolic bytes each",
                    "assertion": "unpack(rq) observed before == unpack(rq) observed after two other parses (failed or not); the first "
                                 "packet is unchanged",
                    "decl_text": "E(t,w Bits(2); k Bits(4); c Int(1).repeated(t // w); z Int(1))"})
        obs.append({"id": "C13/purity/%s" % gen, "module": "c13_purity_%s" % gen, "source": src, "fn": "purity",
                    "required_tags": ["pure"], "bound": "packets parsed from symbolic bytes (A: %d, B: 5, RX: 4) and default-constructed" % la,
                    "assertion": "three consecutive observations (fields + pack()) are identical; default lists / prototypes are fresh per instance",
                    "decl_text": "A, B, RX", "timeout": 240})
        obs.append({"id": "C13/monitor/%s" % gen, "module": "c13_monitor_%s" % gen, "source": src, "fn": "monitor_unpack_pack",
                    "required_tags": [], "collect_all": True, "timeout": 240,
                    "bound": "every path of unpack+pack over symbolic inputs (A: %d bytes, B: 5, RX: 4) and of pack of default packets" % la,
                    "assertion": "no attribute of a field object that existed at class compilation is changed (value-changing writes only)",
                    "decl_text": "Field.__setattr__ monitor over Sub, A, B, RX"})
    return {"obligations": obs,
            "bounds": {"history_length": n, "operations": kinds, "classes": "A, B (share Sub), RX"},
            "outside": ["thread interleavings are not explored: the monitor gives the sufficient condition 'no shared writes'",
                        "histories longer than %d operations" % n],
            "assumptions": ["objects returned by a Ref selector are fresh (documented precondition), so writes to them are not shared writes"]}
