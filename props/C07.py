"""C07 Bit fields partition their bytes MSB-first and never disturb neighbours.

Enumerated: compositions of k bits into consecutive Bits fields (all 128 for k=8; all 32768 for k=16 thorough;
            structured families for wider groups), runs embedded between other fields, generic / generated code.
Symbolic  : unpack - the k/8 raw bytes; pack - every field value an UNBOUNDED int (negative, >= 2**w).
Oracle    : partition identity  sum f_i * 2**s_i == big-endian integer of the bytes, 0 <= f_i < 2**w_i,
            s_i = sum_{j>i} w_j; pack: output integer == sum (v_i mod 2**w_i) * 2**s_i.
            (a formulation different from the code's mask/shift, so not a tautology)
"""
import itertools

MAXF = 16

HEADER = '''\
from bisturi.packet import Packet, PacketError
from bisturi.field import Int, Data, Bits, Ref
from vlib.hx import assume

CLASSES = []   # (class, widths, prefix_bytes, suffix_bytes)


def big_endian(raw, start, n):
    val = 0
    for i in range(n):
        val = val * 256 + raw[start + i]
    return val


def check_unpack(cls, widths, pre, post, raw):
    k = sum(widths)
    nb = k // 8
    try:
        p = cls.unpack(raw)
    except PacketError:
        return "FAIL sig=C07|full-width-input-rejected|%s" % (widths,)
    whole = big_endian(raw, pre, nb)
    total = 0
    shift = k
    for i, w in enumerate(widths):
        shift -= w
        f = getattr(p, "f%d" % i)
        if not (0 <= f < (1 << w)):
            return "FAIL sig=C07|field-out-of-slice-range|%s field=%d" % (widths, i)
        total = total + f * (1 << shift)
    if total != whole:
        return "FAIL sig=C07|partition-identity-unpack|%s" % (widths,)
    if pre and p.pre != big_endian(raw, 0, pre):
        return "FAIL sig=C07|neighbour-before-disturbed|%s" % (widths,)
    if post and p.post != big_endian(raw, pre + nb, post):
        return "FAIL sig=C07|neighbour-after-disturbed|%s" % (widths,)
    if p.pack() != raw:
        return "FAIL sig=C07|repack-differs|%s" % (widths,)
    return None


def expected_int(widths, vals):
    want = 0
    shift = sum(widths)
    for i, w in enumerate(widths):
        shift -= w
        want = want + (vals[i] % (1 << w)) * (1 << shift)
    return want


def check_modify(cls, widths, pre, post, vals, new, raw):
    """histories: (construct | unpack) ; [pack] ; change ONE field ; pack  -> the output reflects exactly the change"""
    r = _check_modify(cls, widths, pre, post, vals, new, raw, True)
    if r is None:
        r = _check_modify(cls, widths, pre, post, vals, new, raw, False)
    return r


def _check_modify(cls, widths, pre, post, vals, new, raw, pack_first):
    k = sum(widths)
    nb = k // 8
    m = len(widths)
    for j in range(m):
        if raw is None:
            p = cls(**dict(("f%d" % i, vals[i]) for i in range(m)))
            cur = list(vals)
        else:
            p = cls.unpack(raw)
            cur = [getattr(p, "f%d" % i) for i in range(m)]
        if pack_first:
            p.pack()
        setattr(p, "f%d" % j, new)
        cur[j] = new
        try:
            out = p.pack()
        except PacketError:
            return "FAIL sig=C07|pack-after-modification-raised|%s field=%d" % (widths, j)
        if big_endian(out, pre, nb) != expected_int(widths, cur):
            return "FAIL sig=C07|stale-bits-after-modification|%s field=%d pack_first=%r out=%r" % (widths, j, pack_first, out)
    return None


def check_pack(cls, widths, pre, post, vals, via_setattr):
    k = sum(widths)
    nb = k // 8
    if via_setattr:
        p = cls()
        for i in range(len(widths)):
            setattr(p, "f%d" % i, vals[i])
    else:
        p = cls(**dict(("f%d" % i, vals[i]) for i in range(len(widths))))
    try:
        out = p.pack()
    except PacketError:
        return "FAIL sig=C07|pack-raised|%s" % (widths,)
    if len(out) != pre + nb + post:
        return "FAIL sig=C07|pack-wrong-length|%s" % (widths,)
    want = 0
    shift = k
    for i, w in enumerate(widths):
        shift -= w
        want = want + (vals[i] % (1 << w)) * (1 << shift)
    if big_endian(out, pre, nb) != want:
        return "FAIL sig=C07|partition-identity-pack|%s out=%r" % (widths, out)
    for j in range(pre):
        if out[j] != 0:
            return "FAIL sig=C07|neighbour-before-disturbed|%s" % (widths,)
    for j in range(post):
        if out[pre + nb + j] != 0:
            return "FAIL sig=C07|neighbour-after-disturbed|%s" % (widths,)
    # a second pack gives the same bytes (the shared integer is rebuilt, not accumulated)
    if p.pack() != out:
        return "FAIL sig=C07|second-pack-differs|%s" % (widths,)
    return None

'''

GEN_OPTS = {"generic": "'generate_for_pack': False, 'generate_for_unpack': False", "generated": ""}


def compositions(k):
    for cuts in range(1 << (k - 1)):
        parts, cur = [], 1
        for i in range(k - 1):
            if (cuts >> i) & 1:
                parts.append(cur)
                cur = 1
            else:
                cur += 1
        parts.append(cur)
        yield tuple(parts)


def class_src(name, widths, gen, pre=0, post=0):
    lines = ["class %s(Packet):" % name, "    __bisturi__ = {%s}" % GEN_OPTS[gen]]
    if pre:
        lines.append("    pre = Int(%d)" % pre)
    for i, w in enumerate(widths):
        lines.append("    f%d = Bits(%d)" % (i, w))
    if post:
        lines.append("    post = Int(%d)" % post)
    lines.append("CLASSES.append((%s, %r, %d, %d))" % (name, tuple(widths), pre, post))
    return "\n".join(lines) + "\n\n"


def harness_src(nbytes_total, nfields):
    return '''
from typing import List
HARNESSES = {}


def _make(ix, cls, widths, pre, post):
    nb = pre + sum(widths) // 8 + post
    m = len(widths)

    def unp(raw: bytes) -> str:
        assume(len(raw) == nb)
        r = check_unpack(cls, widths, pre, post, raw)
        return r if r is not None else "ok:unpacked"

    def pck(vals: List[int]) -> str:
        assume(len(vals) == m)
        r = check_pack(cls, widths, pre, post, vals, False)
        return r if r is not None else "ok:packed"

    def pck_setattr(vals: List[int]) -> str:
        assume(len(vals) == m)
        r = check_pack(cls, widths, pre, post, vals, True)
        return r if r is not None else "ok:packed"
    def mod(vals: List[int], new: int) -> str:
        assume(len(vals) == m)
        r = check_modify(cls, widths, pre, post, vals, new, None)
        return r if r is not None else "ok:packed"

    def modu(raw: bytes, new: int) -> str:
        assume(len(raw) == nb)
        r = check_modify(cls, widths, pre, post, None, new, raw)
        return r if r is not None else "ok:unpacked"
    HARNESSES["mod_%d" % ix] = mod
    HARNESSES["modu_%d" % ix] = modu
    HARNESSES["unp_%d" % ix] = unp
    HARNESSES["pck_%d" % ix] = pck
    HARNESSES["pck_setattr_%d" % ix] = pck_setattr


for _ix, (_c, _w, _pre, _post) in enumerate(CLASSES):
    _make(_ix, _c, _w, _pre, _post)
'''


BOUNDARY_SRC = '''
def boundary() -> str:
    """runs whose total width is not a multiple of 8 are rejected when the class is defined (concrete)"""
    import itertools
    n = 0
    for total in %(totals)r:
        for widths in %(fam)s(total):
            ns = {"__bisturi__": {"generate_for_pack": False, "generate_for_unpack": False}}
            for i, w in enumerate(widths):
                ns["f%%d" %% i] = Bits(w)
            try:
                type(Packet)("Bad", (Packet,), ns)
            except Bits.ByteBoundaryError:
                n += 1
                continue
            except Exception as e:
                # classes built with type() have no source lines: only that late failure is tolerated,
                # it happens after field compilation (where the boundary check lives)
                if type(e).__name__ in ("OSError", "TypeError"):
                    return "FAIL sig=C07|non-byte-multiple-run-accepted|%%s" %% (widths,)
                return "FAIL sig=C07|boundary-wrong-exception-%%s|%%s" %% (type(e).__name__, widths)
            return "FAIL sig=C07|non-byte-multiple-run-accepted|%%s" %% (widths,)
    return "ok:rejected%%d" %% n


def comps(k):
    for cuts in range(1 << (k - 1)):
        parts, cur = [], 1
        for i in range(k - 1):
            if (cuts >> i) & 1:
                parts.append(cur)
                cur = 1
            else:
                cur += 1
        parts.append(cur)
        yield tuple(parts)
'''


def structured(k, sizes, maxparts=3):
    out = []
    for m in range(1, maxparts + 1):
        for combo in itertools.product(sizes, repeat=m):
            if sum(combo) == k:
                out.append(tuple(combo))
    return out


def build(tier, seed):
    obligations = []
    timeout = 120 if tier == "quick" else 900

    def add_batch(bid, items, nbytes_total, gen_note, kinds=("unp", "pck")):
        """items: [(widths, gen, pre, post)]"""
        nf = max(len(w) for w, _, _, _ in items)
        src = HEADER
        for ix, (widths, gen, pre, post) in enumerate(items):
            src += class_src("B%d" % ix, widths, gen, pre, post)
        src += harness_src(nbytes_total, nf)
        decl = "; ".join("%s%s" % ("+".join(map(str, w)), "" if not (pre or post) else "[pre=%d,post=%d]" % (pre, post))
                         for w, _, pre, post in items[:6]) + (" ..." if len(items) > 6 else "")
        for kind in kinds:
            obligations.append({
                "id": "C07/%s/%s" % (bid, kind), "module": "c07_" + bid.replace("/", "_").replace("-", "_"), "source": src,
                "fn": ["%s_%d" % (kind, i) for i in range(len(items))], "timeout": timeout,
                "required_tags": ["unpacked"] if kind in ("unp", "modu") else ["packed"],
                "bound": ("raw = %d symbolic bytes" % nbytes_total) if kind == "unp"
                else ("raw = %d symbolic bytes, new value unbounded int, every field modified in turn" % nbytes_total)
                if kind == "modu" else "%d field values (+ a new value), each an unbounded symbolic int" % nf,
                "assertion": "partition identity (MSB-first) and 0<=f<2**w on unpack; output == sum (v mod 2**w)<<s on pack; "
                             "neighbours untouched; %d declarations in this batch (%s)" % (len(items), gen_note),
                "decl_text": decl, "n_decls": len(items),
            })

    # k = 8: all 128 compositions, generic and generated
    comps8 = list(compositions(8))
    for gen in ("generic", "generated"):
        for b in range(0, len(comps8), 16):
            add_batch("k8-%s-%d" % (gen, b // 16), [(w, gen, 0, 0) for w in comps8[b:b + 16]], 1, gen,
                      kinds=("unp", "pck", "mod", "modu") + (("pck_setattr",) if b == 0 else ()))
    # embedded runs (between a 1-byte and a 2-byte Int), a spread of compositions
    emb = [c for i, c in enumerate(comps8) if i % 9 == 0] + [(4, 12), (1, 7, 8), (12, 4), (3, 5, 16), (9, 7)]
    emb8 = [c for c in emb if sum(c) == 8]
    emb16 = [c for c in emb if sum(c) == 16]
    emb24 = [c for c in emb if sum(c) == 24]
    for gen in ("generic", "generated"):
        add_batch("emb8-%s" % gen, [(w, gen, 1, 2) for w in emb8], 1 + 1 + 2, gen)
        add_batch("emb16-%s" % gen, [(w, gen, 1, 2) for w in emb16], 1 + 2 + 2, gen, kinds=("unp", "pck", "mod", "modu"))
        add_batch("emb24-%s" % gen, [(w, gen, 1, 2) for w in emb24], 1 + 3 + 2, gen)

    # k = 16
    comps16 = list(compositions(16))
    if tier == "quick":
        # every composition with <= 3 parts plus a stride sample of the rest
        few = [c for c in comps16 if len(c) <= 3]
        rest = [c for i, c in enumerate(comps16) if len(c) > 3 and i % 97 == seed % 97]
        sel = few + rest
        for b in range(0, len(sel), 64):
            add_batch("k16-generic-%d" % (b // 64), [(w, "generic", 0, 0) for w in sel[b:b + 64]], 2, "generic")
        add_batch("k16-generated", [(w, "generated", 0, 0) for w in sel[::11]], 2, "generated")
        k16_note = "k=16: all %d compositions with <=3 parts + %d sampled (stride 97, offset seed)" % (len(few), len(rest))
    else:
        for b in range(0, len(comps16), 256):
            add_batch("k16-generic-%d" % (b // 256), [(w, "generic", 0, 0) for w in comps16[b:b + 256]], 2, "generic")
        add_batch("k16-generated", [(w, "generated", 0, 0) for w in comps16[::61]], 2, "generated")
        k16_note = "k=16: all 32768 compositions (generic), every 61st also with generated code"

    # wider groups: structured family
    sizes = [1, 3, 7, 8, 9, 15, 16, 17, 23, 24, 25, 31, 32, 33]
    wide_ks = [24, 32, 40, 48, 64] if tier == "quick" else [24, 32, 40, 48, 56, 64, 72, 96, 128]
    for k in wide_ks:
        fam = structured(k, sizes + [k - 1, k - 8, k], 3)
        fam = sorted(set(fam))
        if tier == "quick":
            fam = fam[::max(1, len(fam) // 24)]
        for gen in ("generic", "generated"):
            f2 = fam if gen == "generic" else fam[::4]
            for b in range(0, len(f2), 32):
                add_batch("k%d-%s-%d" % (k, gen, b // 32), [(w, gen, 0, 0) for w in f2[b:b + 32]], k // 8, gen)

    # non-multiple-of-8 runs are rejected at class definition
    totals = [1, 2, 3, 4, 5, 6, 7, 9, 10, 11, 12, 13, 14, 15] if tier != "quick" else [1, 2, 3, 4, 5, 6, 7, 9, 10, 12]
    src = HEADER + BOUNDARY_SRC % dict(totals=totals, fam="comps")
    obligations.append({
        "id": "C07/boundary", "module": "c07_boundary", "source": src, "fn": "boundary", "timeout": timeout,
        "required_tags": [], "symbolic": False,
        "bound": "all compositions of %s bits (concrete enumeration; no symbolic input)" % totals,
        "assertion": "class definition raises Bits.ByteBoundaryError", "decl_text": "compositions of %s" % totals,
    })
    return {
        "obligations": obligations,
        "bounds": {"k8": "all 128 compositions x {generic, generated}", "k16": k16_note,
                   "wide": "k in %s: compositions with <=3 parts from sizes %s" % (wide_ks, sizes),
                   "unpack_input": "k/8 symbolic bytes (+ neighbours)", "pack_input": "unbounded ints per field"},
        "outside": ["compositions of k>16 outside the structured family", "k=16 compositions not sampled in the quick tier"],
        "assumptions": [],
    }
