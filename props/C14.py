"""C14 Parsing depends only on the bytes it consumes (metamorphic: arbitrary prefix / arbitrary suffix)."""
from vlib.catalogue import select
from vlib.catobs import obligations


def build(tier, seed):
    entries = [e for e in select(tier, exclude=("rawcb",)) if not e["decl"].absolute_positioning()]
    entries = [e for e in entries if "P" not in e["tags"] or tier != "quick"]
    if tier == "quick":
        entries = [e for e in entries if "G" not in e["tags"]]
        entries = [e for e in entries if not ("marker" in e["tags"] and "sbl" in e["tags"])
                   or e["key"] in ("s_mark_ab_exc_2", "s_mark_nul_inc_1", "s_mark_aab_exc_4")]
    obs = []
    a = "unpack(big, off) == unpack(big[off:], 0) (values, end-off, error stack shifted by off); cutting everything after " \
        "the parsed region changes nothing (unless read-to-end / extendable regex delimiter)"
    for e in entries:
        rte = "readtoend" in e["tags"]
        rex = bool(e["tags"] & {"regex", "regex_ext"})
        obs += obligations("C14", [e], tier, "H.h_context(SPEC, CLS, raw, off, KEY, %r, %r)" % (rte, rex),
                           offmax=1 if tier == "quick" else 3, assertion=a)
    return {"obligations": obs, "bounds": {"declarations": [e["key"] for e in entries]},
            "outside": ["declarations with start-of-data positioning ('begins', class align, repeated(aligned=)) and "
                        "callbacks inspecting raw are excluded by the property"], "assumptions": []}
