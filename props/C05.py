"""C05 Integer fields encode and decode exact two's-complement values.

Enumerated: width x signedness x endianness spelling x class default x {generic, generated}
Symbolic  : decode - the n raw bytes (all 2^(8n) patterns in one query family)
            encode - the field value, an UNBOUNDED int (in range -> exact bytes, out of range -> PacketError)
Oracle    : positional formula written here, independent of int.from_bytes / struct.
"""
import sys

HEADER = '''\
import sys
from bisturi.packet import Packet, PacketError
from bisturi.field import Int, Data, Bits, Ref
from vlib.hx import assume


def positional(raw, n, little, signed):
    """value of n bytes: sum raw[i] * 256**pos(i), minus 256**n if signed and top bit set"""
    val = 0
    for i in range(n):
        byt = raw[i]
        exp = i if little else (n - 1 - i)
        val = val + byt * (256 ** exp)
    if signed:
        top = raw[n - 1] if little else raw[0]
        if top >= 128:
            val = val - 256 ** n
    return val

'''

GEN_OPTS = {
    "generic": "'generate_for_pack': False, 'generate_for_unpack': False",
    "generated": "",
    "gen_novec": "'vectorize': False",
}


def _little(endian, class_default):
    eff = endian if endian is not None else (class_default or "big")
    if eff == "local":
        return sys.byteorder == "little"
    return eff == "little"


def cfg_id(n, signed, endian, cdef, gen):
    return "n%d_%s_%s_cls%s_%s" % (n, "s" if signed else "u", endian or "none", cdef or "none", gen)


def render_single(n, signed, endian, cdef, gen):
    cid = cfg_id(n, signed, endian, cdef, gen)
    little = _little(endian, cdef)
    opts = GEN_OPTS[gen]
    if cdef:
        opts = (opts + ", " if opts else "") + "'endianness': %r" % cdef
    args = "%d" % n
    if signed:
        args += ", signed=True"
    if endian is not None:
        args += ", endianness=%r" % endian
    lo = -(1 << (8 * n - 1)) if signed else 0
    hi = (1 << (8 * n - 1)) - 1 if signed else (1 << (8 * n)) - 1
    src = '''
class P_%(cid)s(Packet):
    __bisturi__ = {%(opts)s}
    v = Int(%(args)s)


def dec_%(cid)s(raw: bytes) -> str:
    assume(len(raw) == %(n)d)
    try:
        p = P_%(cid)s.unpack(raw)
    except PacketError:
        return "FAIL sig=C05|decode-rejected-full-width-input|%(cid)s"
    want = positional(raw, %(n)d, %(little)r, %(signed)r)
    if p.v != want:
        return "FAIL sig=C05|decode-wrong-value|%(cid)s got=%%r want=%%r" %% (p.v, want)
    if not (%(lo)d <= p.v <= %(hi)d):
        return "FAIL sig=C05|decode-out-of-range|%(cid)s"
    out = p.pack()
    if out != raw:
        return "FAIL sig=C05|reencode-differs|%(cid)s out=%%r" %% (out,)
    return "ok:decoded"


def enc_%(cid)s(v: int) -> str:
    p = P_%(cid)s(v=v)
    q = P_%(cid)s()
    q.v = v
    inrange = %(lo)d <= v <= %(hi)d
    try:
        out = p.pack()
    except PacketError as e:
        if inrange:
            return "FAIL sig=C05|representable-value-rejected|%(cid)s"
        if e.was_error_found_in_unpacking_phase:
            return "FAIL sig=C05|wrong-phase|%(cid)s"
        try:
            q.pack()
        except PacketError:
            return "ok:rejected"
        return "FAIL sig=C05|attribute-assignment-differs|%(cid)s"
    if not inrange:
        return "FAIL sig=C05|out-of-range-accepted|%(cid)s out=%%r" %% (out,)
    if len(out) != %(n)d:
        return "FAIL sig=C05|wrong-length|%(cid)s out=%%r" %% (out,)
    if positional(out, %(n)d, %(little)r, %(signed)r) != v:
        return "FAIL sig=C05|encode-wrong-bytes|%(cid)s out=%%r" %% (out,)
    if q.pack() != out:
        return "FAIL sig=C05|attribute-assignment-differs|%(cid)s"
    back = P_%(cid)s.unpack(out)
    if back.v != v:
        return "FAIL sig=C05|roundtrip|%(cid)s"
    return "ok:encoded"


def typ_%(cid)s() -> str:
    for bad in (None, 1.5, 1.0, '1', b'1', [1], (1,)):
        p = P_%(cid)s(v=bad)
        try:
            out = p.pack()
        except PacketError:
            continue
        except Exception as e:
            return "FAIL sig=C05|non-integer-escapes-as-%%s|%(cid)s" %% type(e).__name__
        return "FAIL sig=C05|non-integer-accepted|%(cid)s value=%%r out=%%r" %% (bad, out)
    return "ok:types"
''' % dict(cid=cid, opts=opts, args=args, n=n, little=little, signed=signed, lo=lo, hi=hi)
    return cid, src


def render_pair(ix, c1, c2, gen):
    (n1, s1, e1), (n2, s2, e2) = c1, c2
    cid = "pair%d_%s" % (ix, gen)

    def a(n, s, e):
        r = "%d" % n
        if s:
            r += ", signed=True"
        if e is not None:
            r += ", endianness=%r" % e
        return r
    l1, l2 = _little(e1, None), _little(e2, None)
    lo1 = -(1 << (8 * n1 - 1)) if s1 else 0
    hi1 = (1 << (8 * n1 - 1)) - 1 if s1 else (1 << (8 * n1)) - 1
    lo2 = -(1 << (8 * n2 - 1)) if s2 else 0
    hi2 = (1 << (8 * n2 - 1)) - 1 if s2 else (1 << (8 * n2)) - 1
    src = '''
class P_%(cid)s(Packet):
    __bisturi__ = {%(opts)s}
    a = Int(%(a1)s)
    b = Int(%(a2)s)


def dec_%(cid)s(raw: bytes) -> str:
    assume(len(raw) == %(n)d)
    try:
        p = P_%(cid)s.unpack(raw)
    except PacketError:
        return "FAIL sig=C05|decode-rejected-full-width-input|%(cid)s"
    wa = positional(raw[:%(n1)d], %(n1)d, %(l1)r, %(s1)r)
    wb = positional(raw[%(n1)d:], %(n2)d, %(l2)r, %(s2)r)
    if p.a != wa or p.b != wb:
        return "FAIL sig=C05|decode-wrong-value|%(cid)s got=%%r want=%%r" %% ((p.a, p.b), (wa, wb))
    if p.pack() != raw:
        return "FAIL sig=C05|reencode-differs|%(cid)s"
    return "ok:decoded"


def enc_%(cid)s(a: int, b: int) -> str:
    p = P_%(cid)s(a=a, b=b)
    inrange = (%(lo1)d <= a <= %(hi1)d) and (%(lo2)d <= b <= %(hi2)d)
    try:
        out = p.pack()
    except PacketError:
        if inrange:
            return "FAIL sig=C05|representable-value-rejected|%(cid)s"
        return "ok:rejected"
    if not inrange:
        return "FAIL sig=C05|out-of-range-accepted|%(cid)s out=%%r" %% (out,)
    if len(out) != %(n)d:
        return "FAIL sig=C05|wrong-length|%(cid)s"
    if positional(out[:%(n1)d], %(n1)d, %(l1)r, %(s1)r) != a or positional(out[%(n1)d:], %(n2)d, %(l2)r, %(s2)r) != b:
        return "FAIL sig=C05|encode-wrong-bytes|%(cid)s out=%%r" %% (out,)
    return "ok:encoded"
''' % dict(cid=cid, opts=GEN_OPTS[gen], a1=a(*c1), a2=a(*c2), n=n1 + n2, n1=n1, n2=n2, l1=l1, l2=l2, s1=s1, s2=s2,
           lo1=lo1, hi1=hi1, lo2=lo2, hi2=hi2)
    return cid, src


def build(tier, seed):
    if tier == "quick":
        widths = [1, 2, 3, 4, 5, 8, 9, 16]
        endians = [None, "big", "little", "network", "local"]
        gens = ["generic", "generated"]
    else:
        widths = [1, 2, 3, 4, 5, 6, 7, 8, 9, 10, 12, 15, 16, 17, 24, 32, 64]
        endians = [None, "big", "little", "network", "local"]
        gens = ["generic", "generated", "gen_novec"]
    obligations = []
    timeout = 60 if tier == "quick" else 300

    def add_module(modname, cids_srcs, kinds):
        for cid, s in cids_srcs:
            source = HEADER + s
            modname = "c05_" + cid
            for kind in kinds:
                req = {"dec": ["decoded"], "enc": ["encoded", "rejected"], "typ": ["types"]}[kind]
                obligations.append({
                    "id": "C05/%s/%s" % (cid, kind), "module": modname, "source": source, "fn": "%s_%s" % (kind, cid),
                    "timeout": timeout, "required_tags": req, "symbolic": kind != "typ",
                    "bound": {"dec": "raw = the field's full width of symbolic bytes (all bit patterns)",
                              "enc": "value = unbounded symbolic int (negative, in range, beyond range)",
                              "typ": "finite list of non-integer values (concrete)"}[kind],
                    "assertion": {"dec": "decoded value == positional two's-complement formula; pack()==raw",
                                  "enc": "in range -> n bytes whose positional value is v and that decode to v; "
                                         "out of range -> PacketError (packing phase)",
                                  "typ": "non-integer value -> PacketError"}[kind],
                    "decl_text": s.split("def ")[0],
                })

    for n in widths:
        items = []
        for signed in (False, True):
            for e in endians:
                for gen in gens:
                    items.append(render_single(n, signed, e, None, gen))
            # class-level default
            for cdef, e in (("little", None), ("big", None), ("little", "big"), ("big", "little"), ("network", None),
                            ("local", None)):
                for gen in gens[:2]:
                    items.append(render_single(n, signed, e, cdef, gen))
        add_module("c05_w%d" % n, items, ["dec", "enc"] + (["typ"] if n in (1, 3, 4, 16) else []))

    pair_cfgs = [((1, False, None), (2, False, None)), ((2, True, "little"), (2, False, "big")),
                 ((4, False, "little"), (1, True, "little")), ((3, False, None), (2, True, None)),
                 ((2, False, "big"), (3, True, "little")), ((8, True, None), (8, False, "little")),
                 ((1, False, "local"), (2, False, "local")), ((2, True, "local"), (4, False, "local")),
                 ((1, True, "network"), (8, False, "local"))]
    if tier != "quick":
        pair_cfgs += [((1, True, "network"), (4, True, "local")), ((5, False, "little"), (4, False, "little")),
                      ((2, False, "local"), (2, True, "network")), ((1, False, "little"), (1, True, "big")),
                      ((8, False, "big"), (1, False, "big")), ((4, True, "big"), (4, True, "big"))]
    items = []
    for ix, (c1, c2) in enumerate(pair_cfgs):
        for gen in gens:
            items.append(render_pair(ix, c1, c2, gen))
    add_module("c05_pairs", items, ["dec", "enc"])

    return {
        "obligations": obligations,
        "bounds": {"widths": widths, "endianness": [str(e) for e in endians], "code_paths": gens,
                   "decode_input": "exactly n symbolic bytes", "encode_input": "unbounded int",
                   "local_byte_order": sys.byteorder},
        "outside": ["widths not listed", "'local' only for this machine's byte order (%s)" % sys.byteorder],
        "assumptions": [],
    }
